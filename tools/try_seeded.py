"""Confirm an independently written breaking change and run the checks against it.

usage: try_seeded.py <worktree> <k> <seeded-id> <property> [other properties to run as well ...] [--skip-tests]

1. demo<k>.py must exit 0 on the clean worktree and non-zero with change<k>.diff applied;
2. the repository's own test-suite must pass with the change applied (run from the worktree);
3. the change is applied to /repo (git apply), the quick checks run (evidence redirected to a scratch dir), /repo is restored;
4. everything is stored under /verif/seeded/<id>/ (patch.diff, demo.py, meta.json).
"""
import json
import os
import shutil
import subprocess
import sys
import tempfile
import time

VERIF = os.path.dirname(os.path.dirname(os.path.abspath(__file__)))
args = [a for a in sys.argv[1:] if not a.startswith("--")]
wt, k, sid, prop = args[0], args[1], args[2], args[3]
others = args[4:]
skip_tests = "--skip-tests" in sys.argv
via_wt = "--via-worktree" in sys.argv  # run the checks against the worktree (VERIF_REPO) instead of applying the patch to /repo (needed while a vp run uses /repo)
out = os.path.join(VERIF, "seeded", sid)
os.makedirs(out, exist_ok=True)
patch = os.path.join(wt, "OUT", f"change{k}.diff")
demo = os.path.join(wt, "OUT", f"demo{k}.py")
shutil.copy(patch, os.path.join(out, "patch.diff"))
shutil.copy(demo, os.path.join(out, "demo.py"))
env = dict(os.environ, PYTHONPATH=wt, OMP_NUM_THREADS="2")


def sh(cmd, cwd=None, env=None, timeout=3600):
    p = subprocess.run(cmd, shell=True, cwd=cwd, env=env, capture_output=True, text=True, timeout=timeout)
    return p.returncode, (p.stdout + p.stderr)


meta = {"id": sid, "property": prop, "source": f"independent sub-agent, worktree {os.path.basename(wt)}, change {k}", "ran": []}
sh("git checkout -- . && git status --short", cwd=wt)
rc0, o0 = sh(f"/venv/bin/python {demo}", cwd=wt, env=env, timeout=900)
meta["demo_exit_on_clean_tree"] = rc0
rc, o = sh(f"git apply {patch}", cwd=wt)
assert rc == 0, o
try:
    rc1, o1 = sh(f"/venv/bin/python {demo}", cwd=wt, env=env, timeout=900)
    meta["demo_exit_with_change"] = rc1
    meta["demo_output_with_change"] = o1[-600:]
    meta["ran"].append(f"cd <worktree> && PYTHONPATH=<worktree> /venv/bin/python demo.py  -> exit {rc0} clean, exit {rc1} with patch.diff applied")
    if not skip_tests:
        t0 = time.time()
        rct, ot = sh("timeout 3000 /venv/bin/python -m pytest -q -p no:cacheprovider -n 16 2>&1 | tail -3", cwd=wt, env=env, timeout=3300)
        line = [ln for ln in ot.splitlines() if "passed" in ln or "failed" in ln or "error" in ln]
        meta["test_suite_with_change"] = line[-1] if line else ot[-300:]
        meta["ran"].append(f"cd <worktree> && PYTHONPATH=<worktree> /venv/bin/python -m pytest -q -p no:cacheprovider -n 16 -> {meta['test_suite_with_change']} ({time.time() - t0:.0f}s)")
finally:
    sh("git checkout -- .", cwd=wt)

confirmed = rc0 == 0 and meta.get("demo_exit_with_change", 0) != 0 and (skip_tests or ("passed" in meta.get("test_suite_with_change", "") and "failed" not in meta.get("test_suite_with_change", "")))
meta["confirmed"] = bool(confirmed)

# run the checks against /repo with the change applied
results = {}
target = wt if via_wt else "/repo"
rc, o = sh("git status --short -uno", cwd=target)
assert o.strip() == "", target + " is not clean: " + o
rc, o = sh(f"git apply {os.path.join(out, 'patch.diff')}", cwd=target)
assert rc == 0, o
scratch = tempfile.mkdtemp(prefix="verif-seeded-")
try:
    for p in [prop] + others:
        cenv = dict(os.environ, VERIF_EVIDENCE_DIR=os.path.join(scratch, "evidence"), VERIF_REPLAY_DIR=os.path.join(out, "replays_" + p),
                    VERIF_STOP_ON_FIRST="1")
        if via_wt:
            cenv["VERIF_REPO"] = wt
        t0 = time.time()
        rcc, oc = sh(f"bin/simcheck {p} --tier quick", cwd=VERIF, env=cenv, timeout=3000)
        vio = [ln for ln in oc.splitlines() if ln.startswith("[simcheck] violation")]
        results[p] = {"exit": rcc, "wall_s": round(time.time() - t0), "first_violation": (vio[0][21:700] if vio else None)}
        meta["ran"].append((f"git -C <worktree> apply patch.diff; VERIF_REPO=<worktree> bin/simcheck {p} --tier quick -> exit {rcc}" if via_wt else
                            f"git -C /repo apply patch.diff; bin/simcheck {p} --tier quick -> exit {rcc}"))
finally:
    sh("git checkout -- .", cwd=target)
    shutil.rmtree(scratch, ignore_errors=True)
rc, o = sh("git status --short -uno", cwd=target)
assert o.strip() == "", target + " not restored: " + o
meta["checks"] = results
meta["caught_by"] = [p for p, r in results.items() if r["exit"] == 1]
with open(os.path.join(out, "meta.json"), "w") as f:
    json.dump(meta, f, indent=1)
print(json.dumps({k_: meta[k_] for k_ in ("id", "confirmed", "demo_exit_on_clean_tree", "demo_exit_with_change", "caught_by")}), meta.get("test_suite_with_change"))
for p, r in results.items():
    print("  ", p, r["exit"], r["wall_s"], (r["first_violation"] or "")[:300])
