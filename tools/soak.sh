#!/bin/sh
# soak: quick tier of every property over a range of VERIF_SEED values; prints one line per run, full output of failing runs
FROM=${1:-1}; TO=${2:-12}; TIER=${3:-quick}; PROPS=${4:-"C17 C16 C12 C13"}
mkdir -p .work/soak
for sd in $(seq $FROM $TO); do
  for p in $PROPS; do
    VERIF_SEED=$sd VERIF_EVIDENCE_DIR=$PWD/.work/soak/evidence VERIF_REPLAY_DIR=$PWD/.work/soak/replays bin/simcheck $p --tier $TIER > .work/soak/$p-$sd.out 2>&1
    rc=$?
    echo "seed=$sd $p rc=$rc $(grep "simcheck\] $p/" .work/soak/$p-$sd.out | cut -c1-260)"
    if [ $rc -ne 0 ]; then grep "violation sig\|VIOLATION\|HARNESS" .work/soak/$p-$sd.out | cut -c1-1200; fi
  done
done
