"""Re-run the quick checks against every stored seeded change (apply to /repo, run, restore) and update meta.json."""
import json
import os
import shutil
import subprocess
import sys
import tempfile
import time

VERIF = os.path.dirname(os.path.dirname(os.path.abspath(__file__)))
ids = sys.argv[1:] or sorted(os.listdir(os.path.join(VERIF, "seeded")))
for sid in ids:
    d = os.path.join(VERIF, "seeded", sid)
    meta = json.load(open(os.path.join(d, "meta.json")))
    assert subprocess.run("git status --short", shell=True, cwd="/repo", capture_output=True, text=True).stdout.strip() == ""
    subprocess.run(f"git apply {os.path.join(d, 'patch.diff')}", shell=True, cwd="/repo", check=True)
    scratch = tempfile.mkdtemp(prefix="verif-seeded-")
    try:
        for p in [q for q in meta["checks"].keys() if "-" not in q]:
            env = dict(os.environ, VERIF_EVIDENCE_DIR=os.path.join(scratch, "evidence"), VERIF_REPLAY_DIR=os.path.join(scratch, "replays"), VERIF_STOP_ON_FIRST="1")
            t0 = time.time()
            r = subprocess.run(f"bin/simcheck {p} --tier quick", shell=True, cwd=VERIF, env=env, capture_output=True, text=True)
            vio = [ln for ln in r.stdout.splitlines() if ln.startswith("[simcheck] violation")]
            meta["checks"][p] = {"exit": r.returncode, "wall_s": round(time.time() - t0), "first_violation": (vio[0][21:700] if vio else None)}
    finally:
        subprocess.run("git checkout -- .", shell=True, cwd="/repo")
        shutil.rmtree(scratch, ignore_errors=True)
    meta["caught_by"] = [p for p, r in meta["checks"].items() if r["exit"] == 1]
    json.dump(meta, open(os.path.join(d, "meta.json"), "w"), indent=1)
    print(sid, {p: (r["exit"], r.get("wall_s")) for p, r in meta["checks"].items()}, flush=True)
