"""Re-run the quick checks against every stored seeded change (apply to /repo, run, restore) and update meta.json.
--scratch: apply each patch to a scratch export of /repo HEAD under /tmp instead (VERIF_REPO), for use while a vp run reads /repo."""
import json
import os
import shutil
import subprocess
import sys
import tempfile
import time

VERIF = os.path.dirname(os.path.dirname(os.path.abspath(__file__)))
SCRATCH = "--scratch" in sys.argv
ids = [a for a in sys.argv[1:] if not a.startswith("--")] or sorted(os.listdir(os.path.join(VERIF, "seeded")))
for sid in ids:
    d = os.path.join(VERIF, "seeded", sid)
    meta = json.load(open(os.path.join(d, "meta.json")))
    scratch = tempfile.mkdtemp(prefix="verif-seeded-")
    if SCRATCH:
        target = os.path.join(scratch, "repo")
        os.makedirs(target)
        subprocess.run(f"git -C /repo archive HEAD | tar -x -C {target}", shell=True, check=True)
        subprocess.run(f"patch -s -p1 < {os.path.join(d, 'patch.diff')}", shell=True, cwd=target, check=True)
    else:
        target = "/repo"
        assert subprocess.run("git status --short", shell=True, cwd="/repo", capture_output=True, text=True).stdout.strip() == ""
        subprocess.run(f"git apply {os.path.join(d, 'patch.diff')}", shell=True, cwd="/repo", check=True)
    try:
        for p in [q for q in meta["checks"].keys() if "-" not in q]:
            env = dict(os.environ, VERIF_EVIDENCE_DIR=os.path.join(scratch, "evidence"), VERIF_REPLAY_DIR=os.path.join(scratch, "replays"), VERIF_STOP_ON_FIRST="1")
            if SCRATCH:
                env["VERIF_REPO"] = target
            t0 = time.time()
            r = subprocess.run(f"bin/simcheck {p} --tier quick", shell=True, cwd=VERIF, env=env, capture_output=True, text=True)
            vio = [ln for ln in r.stdout.splitlines() if ln.startswith("[simcheck] violation")]
            meta["checks"][p] = {"exit": r.returncode, "wall_s": round(time.time() - t0), "first_violation": (vio[0][21:700] if vio else None)}
    finally:
        if not SCRATCH:
            subprocess.run("git checkout -- .", shell=True, cwd="/repo")
        shutil.rmtree(scratch, ignore_errors=True)
    meta["caught_by"] = [p for p, r in meta["checks"].items() if r["exit"] == 1]
    json.dump(meta, open(os.path.join(d, "meta.json"), "w"), indent=1)
    print(sid, {p: (r["exit"], r.get("wall_s")) for p, r in meta["checks"].items()}, flush=True)
