import json
NA = {
"C01":"pure function of (structure, parameters, rhs): product/transpose/densification vs the dense matrix has no state, schedule, fault or history in its statement; deciding it is input generation against a dense oracle (property-based testing), not simulation (DESIGN §8)",
"C02":"pure function of (expression program, inputs); type dispatch of compositions/rewrites is stateless — no schedule, clock, fault or interleaving to own (DESIGN §8)",
"C03":"pure function of (operator, index tuple, debug flag) — no history, schedule or fault (DESIGN §8)",
"C04":"pure function of (A, B, settings snapshot); its only history-dependent clause (cached factors never change the answer) is decided under C12 and not claimed separately (DESIGN §8)",
"C05":"pure function of (A, R, settings snapshot, probes drawn); the statement conditions on the probes, so owning randn leaves nothing to schedule (DESIGN §8)",
"C06":"pure function of (A, method, settings snapshot); the Cholesky->symeig fallback is reached by C12/C16 fault injection but factor correctness is input-quantified (DESIGN §8)",
"C07":"pure function of (parameters, vectors, two flags): gradient identities have no schedule/fault/history (DESIGN §8)",
"C08":"CG is a deterministic trajectory with data-dependent, not schedule-dependent, branches; per-iteration claims are claims about a pure function (DESIGN §8)",
"C09":"Lanczos invariants are a pure function of (A, start vectors, budget); the random start vector is an input (DESIGN §8)",
"C10":"pivoted Cholesky / preconditioner values are a pure function of (A, D, rank, tolerances); the lazily filled preconditioner cache is covered as state under C12, not here (DESIGN §8)",
"C11":"MINRES / contour quadrature are pure functions of (K, b, shifts, settings snapshot) (DESIGN §8)",
"C14":"copies and conversions denote the same matrix: pure function of (operator, target dtype, default dtype); 'shares no storage' is a fact about one instant (DESIGN §8)",
"C15":"torch.* dispatch is a finite stateless table to enumerate, not a schedule/fault space (DESIGN §8)",
"C18":"sampling uses a true square root: pure function of (A, noise); no history or fault in the statement (DESIGN §8)",
"C19":"bad shapes and indices raise: pure function of (operator, operand shape/index) (DESIGN §8)",
"C20":"utility kernels equal their dense definitions: pure functions of their inputs (DESIGN §8)",
}
SPECS = {
 "C17": dict(design="§7", technique="deterministic simulation: seeded generator-task interleaving of real with-blocks, exception / cancellation fault injection, slot reference model checked after every event",
   text="Seeded search over event histories (construct / enter / exit / exception-exit / cancellation) of 1-3 interleaved tasks over every setting class found by introspection, checked against a slot reference model through the public readers after every event, plus library computations whose outcome is predicted from the model; violations are minimised (hierarchical delta debugging) and confirmed by a fresh-interpreter replay. Sampling, not proof.",
   note="Trusted: the slot model (save on entry, restore on exit), the seeded scheduler, CPython generator semantics. Tasks own disjoint slots (settings are process-global by design)."),
 "C16": dict(design="§6", technique="deterministic simulation: psd_safe_cholesky retry loop under injected per-member cholesky_ex failure schedules (exhaustive for small schedule spaces) and natural borderline matrices, reference model of the jitter arithmetic",
   text="The retry loop is run against a fake cholesky_ex that fails chosen batch members on chosen attempts (all schedules for <=3 members x <=3 tries, sampled beyond) and against naturally borderline / indefinite / NaN matrices; a per-call reference model predicts warnings, exceptions and the exact perturbed matrix each member's factor must factorize; input immutability monitored bitwise. Sampling beyond the small exhaustive space.",
   note="Trusted: torch.linalg.cholesky_ex as the real kernel underneath the fake, float64 reference factorization, the model's reading of 'member m first succeeds at attempt i_m'."),
 "C12": dict(design="§4", technique="deterministic simulation: seeded stateful query/derivation histories with settings flips and fault injection (callback exceptions, cholesky_ex info, LinAlgError, sys.monitoring line-level crashes), history-vs-fresh-copy reference",
   text="Seeded histories of builds, derivations, queries, settings flips and injected faults over a small world of operators sharing sub-operators; after every query the same query runs on a freshly rebuilt copy and results are compared through method-independent error functionals with tolerance measured on the fresh copy; every cache entry transplanted onto a derived operator is judged as a query against a cache-less re-derivation (O2); post-fault queries are judged against copies that never saw the fault (O3); two distinct requests may not be answered with the very same object when fresh copies answer them differently (O5). Violations minimised by ddmin, attributed by cache knockout, confirmed in a fresh interpreter. Sampling, not proof.",
   note="Trusted: the library itself on an empty history is the reference (a class wrong with and without history is C01-C06, not C12); tolerance rule err(hist) <= max(floor, 10*err(fresh)); n <= 12, history <= 14 steps."),
 "C13": dict(design="§5", technique="deterministic simulation: storage-conservation invariant (version counters + whole-storage bytes + operator dense value) checked after every simulated step of layout-stressed operation histories with fault injection",
   text="Every step of every simulated world (operator queries, derivations, direct utility calls; tensors as views / stride-0 expansions / guard-zoned slices / aliases; faults forcing retry and early-exit paths) is followed by a bitwise check of every caller-owned storage, version counter and pre-existing operator's dense value. Sampling, not proof.",
   note="Trusted: torch version counters and untyped-storage byte comparison; reading to_dense() of existing operators through their caches on purpose."),
}
LIVE = [p for p in ("C12","C13","C16","C17") if p in __import__("sys").argv[1:]]
CHECKS = [{"property_id":p, "quick_cmd":f"bin/simcheck {p} --tier quick", "thorough_cmd":f"bin/simcheck {p} --tier thorough", "evidence_file":f"evidence/{p}.json", "replay_cmd_template":"bin/simcheck replay {path}", "engine":"simcheck", "level_claimed":{"category":"exploration","text":SPECS[p]["text"],"design_ref":"DESIGN.md "+SPECS[p]["design"]}, "level_note":SPECS[p]["note"], "technique":SPECS[p]["technique"]} for p in LIVE]
m = {
 "version": 1,
 "setup_cmd": "/venv/bin/python bin/simcheck.py setup",
 "hooks": {"guard": "LINEAR_OPERATOR_VERIF", "enable": "no hook in /repo is needed: every seam (module-level torch functions, user callbacks, sys.monitoring, the verbose_linalg logger) is reachable from outside; checks import linear_operator from /repo's working tree (VERIF_REPO overrides)", "baseline_off_cmd": "cd /repo && /venv/bin/python -m pytest -ra -q -p no:cacheprovider --timeout=900 --continue-on-collection-errors", "source_commits": [], "add_only": True},
 "engines": [{"name":"simcheck","path":"bin/simcheck","serves_properties":LIVE,"kind_free_text":"seeded deterministic simulator (own generator, event log, ddmin minimiser, fresh-interpreter replay) with fault injection at torch / callback / sys.monitoring seams"}],
 "checks": CHECKS,
 "notes": "Technique: deterministic simulation with fault injection. See DESIGN.md.",
 "not_applicable": [{"property_id":k,"reason":v} for k,v in NA.items()] + [{"property_id":k,"reason":"simulation target per DESIGN.md; its check is still under construction and not yet registered"} for k in ("C12","C13","C16","C17") if k not in LIVE],
}
json.dump(m, open("/verif/MANIFEST.json","w"), indent=1)
