"""Census of violation classes: runs the seeded search like a check but groups every (minimised, attributed)
violation record instead of confirming the first few.  Diagnostic tool, not a registered check."""
import collections
import json
import os
import subprocess
import sys
import time

sys.path.insert(0, os.path.dirname(os.path.dirname(os.path.abspath(__file__))))
from sim import engine  # noqa: E402

prop = sys.argv[1]
n_runs = int(sys.argv[2])
base = int(sys.argv[3]) if len(sys.argv) > 3 and not sys.argv[3].startswith("--") else 0
os.makedirs(engine.WORK_DIR, exist_ok=True)
procs = []
nw = 16
t0 = time.time()
for w in range(nw):
    count = (n_runs - w + nw - 1) // nw
    out = os.path.join(engine.WORK_DIR, f"census-{prop}-{os.getpid()}-{w}.jsonl")
    cmd = [engine.PY, os.path.join(engine.VERIF_DIR, "bin", "simcheck.py"), "_worker", prop, "quick", str(base), str(w), str(nw), str(count),
           repr(time.time() + 36000), out]
    procs.append((subprocess.Popen(cmd, env=engine.worker_env(), stdout=subprocess.DEVNULL, stderr=subprocess.DEVNULL), out))
groups = collections.defaultdict(list)
herr = []
for p, out in procs:
    p.wait()
    for line in open(out):
        rec = json.loads(line)
        if rec["type"] == "violation":
            a = rec.get("attribution") or {}
            key = (tuple(rec["sig"][1:]), tuple(a.get("culprit_names", [])), a.get("culprit_accuracy"), a.get("parent_root_accuracy"), tuple(sorted(set(a.get("culprit_writers", [])))),
                   a.get("requires_fault"), tuple(a.get("reader_pairs") or []), a.get("approximate_factor_involved"), a.get("culprits_written_by_queries_inexact_on_fresh_copy_too"))
            groups[key].append(rec)
        elif rec["type"] == "harness_error":
            herr.append(rec)
    os.remove(out)
from sim import known as K  # noqa: E402

known = engine.load_known()
unmatched_only = "--unmatched" in sys.argv
print(f"{n_runs} runs, {time.time() - t0:.0f}s, {sum(len(v) for v in groups.values())} violations in {len(groups)} groups, {len(herr)} harness errors")
os.makedirs("/tmp/census", exist_ok=True)
for i, (k, v) in enumerate(sorted(groups.items(), key=lambda kv: -len(kv[1]))):
    kid = K.match(known, prop, v[0])
    if unmatched_only and kid is not None:
        continue
    print(f"[{i}] x{len(v)} {kid or 'UNMATCHED'} {k}")
    print("     " + (v[0]["detail"] or "")[:300].replace("\n", " "))
    json.dump({"property": prop, "scenario": v[0]["scenario"], "sig": v[0]["sig"], "attribution": v[0].get("attribution"), "run_seed": v[0]["run_seed"], "digest": v[0]["digest"]},
              open(f"/tmp/census/{prop}-{i}.json", "w"))
for h in herr[:3]:
    print("HARNESS", json.dumps(h)[:1500])
