"""Shared simulation engine: seeds, event log + digests, worker fan-out, classification, evidence.

One integer (VERIF_SEED) decides everything: run i of property P uses
run_seed = blake2b(f"{VERIF_SEED}:{P}:{i}")[:8]; a run's behaviour is a pure function of run_seed and of
the code under test.  Parallelism is across single-threaded worker *processes*; a run never shares a
process-global with a concurrently executing run.

Exit codes of a check: 0 = held on everything explored, 1 = VIOLATION (confirmed by a fresh-interpreter
replay), 2 = HARNESS-ERROR (harness exception / non-reproducing replay / digest mismatch), 3 = wall cap.
"""
from __future__ import annotations

import hashlib
import json
import os
import subprocess
import sys
import time
import traceback

VERIF_DIR = os.path.dirname(os.path.dirname(os.path.abspath(__file__)))
PY = sys.executable
WORK_DIR = os.path.join(VERIF_DIR, ".work")
REPLAY_DIR = os.environ.get("VERIF_REPLAY_DIR") or os.path.join(VERIF_DIR, "replays")
EVIDENCE_DIR = os.environ.get("VERIF_EVIDENCE_DIR") or os.path.join(VERIF_DIR, "evidence")
KNOWN_FILE = os.path.join(VERIF_DIR, "known_findings.json")

N_WORKERS = int(os.environ.get("VERIF_WORKERS", "16"))


def base_seed() -> int:
    try:
        return int(os.environ.get("VERIF_SEED", "0"))
    except ValueError:
        return 0


def run_seed(base: int, prop: str, i: int) -> int:
    h = hashlib.blake2b(f"{base}:{prop}:{i}".encode(), digest_size=8).digest()
    return int.from_bytes(h, "big")


def sub_seed(seed: int, *parts) -> int:
    h = hashlib.blake2b((str(seed) + ":" + ":".join(str(p) for p in parts)).encode(), digest_size=8).digest()
    return int.from_bytes(h, "big") & 0x7FFFFFFFFFFFFFFF


def canon(obj):
    """Canonical JSON-able form of log / op payloads (no floats formatted by locale, tuples -> lists)."""
    if isinstance(obj, dict):
        return {str(k): canon(v) for k, v in sorted(obj.items(), key=lambda kv: str(kv[0]))}
    if isinstance(obj, (list, tuple)):
        return [canon(v) for v in obj]
    if isinstance(obj, float):
        return repr(obj)
    if isinstance(obj, (int, str, bool)) or obj is None:
        return obj
    return str(obj)


class EventLog:
    """Append-only log of one run.  Logging never draws from a PRNG and never reads a clock."""

    def __init__(self, seed=None):
        self.records = []
        if seed is not None:
            self.records.append(["run_seed", str(seed)])

    def add(self, *rec):
        self.records.append(canon(list(rec)))

    def digest(self) -> str:
        blob = json.dumps(self.records, sort_keys=True, separators=(",", ":")).encode()
        return hashlib.blake2b(blob, digest_size=12).hexdigest()


def tensor_sha(t) -> str:
    """sha1 of the raw bytes + shape + dtype of a tensor (NaN payload-exact)."""
    import torch

    tt = t.detach()
    if tt.is_sparse:
        tt = tt.to_dense()
    tt = tt.cpu().clone(memory_format=torch.contiguous_format).reshape(-1).clone()
    shape0 = tuple(t.shape)
    h = hashlib.sha1()
    h.update(str(shape0).encode())
    h.update(str(tt.dtype).encode())
    if tt.numel():
        h.update(tt.view(torch.uint8).numpy().tobytes() if tt.dtype != torch.bool else tt.to(torch.uint8).numpy().tobytes())
    return h.hexdigest()[:16]


class HarnessError(Exception):
    pass


# ----------------------------------------------------------------------------------------------------
# property registry


def get_property_module(prop: str):
    if prop == "C17":
        from sim import check_c17 as m
    elif prop == "C16":
        from sim import check_c16 as m
    elif prop == "C12":
        from sim import check_c12 as m
    elif prop == "C13":
        from sim import check_c13 as m
    else:
        raise HarnessError(f"unknown property {prop}")
    return m


# ----------------------------------------------------------------------------------------------------
# worker side


def worker_env(extra=None):
    env = dict(os.environ)
    env["PYTHONHASHSEED"] = env.get("VERIF_HASHSEED", "0")
    for k in ("OMP_NUM_THREADS", "MKL_NUM_THREADS", "OPENBLAS_NUM_THREADS", "NUMEXPR_NUM_THREADS"):
        env[k] = "1"
    env["PYTHONDONTWRITEBYTECODE"] = "1"
    env["PYTHONPATH"] = VERIF_DIR + (os.pathsep + env["PYTHONPATH"] if env.get("PYTHONPATH") else "")
    if extra:
        env.update(extra)
    return env


def setup_process():
    """Executed first thing in every worker / replay process."""
    repo = os.environ.get("VERIF_REPO", "/repo")
    if repo not in sys.path:
        sys.path.insert(0, repo)
    import torch

    torch.set_num_threads(1)
    try:
        torch.set_num_interop_threads(1)
    except RuntimeError:
        pass
    import linear_operator  # noqa: F401

    lo_path = os.path.dirname(os.path.abspath(linear_operator.__file__))
    if not lo_path.startswith(os.path.abspath(repo)):
        raise HarnessError(f"linear_operator imported from {lo_path}, expected under {repo}")
    from sim import seams

    seams.install_log_capture()
    mutant = os.environ.get("VERIF_MUTANT")
    if mutant:
        from sim import mutants

        mutants.apply(mutant)


def worker_main(argv):
    """simcheck _worker <prop> <tier> <base_seed> <start> <stride> <count> <soft_deadline_epoch> <out>"""
    prop, tier = argv[0], argv[1]
    base, start, stride, count = int(argv[2]), int(argv[3]), int(argv[4]), int(argv[5])
    soft_deadline = float(argv[6])
    out_path = argv[7]
    import faulthandler

    faulthandler.enable()
    setup_process()
    mod = get_property_module(prop)
    out = open(out_path, "w")
    try:
        mod.warmup()
        agg = mod.new_aggregate()
        n_done = 0
        selfcheck_every = mod.SELFCHECK_EVERY.get(tier, 8)
        claim_dir = os.environ.get("VERIF_CLAIM_DIR")

        def indices():
            """Run indices for this worker: a static stride, or (default in checks) dynamically claimed chunks so that a few
            expensive runs / minimisations do not leave the other workers idle.  Which worker executes a run never matters."""
            if not claim_dir:
                for k_ in range(count):
                    yield k_, start + k_ * stride
                return
            chunk = 40
            total = int(os.environ["VERIF_TOTAL_RUNS"])
            c = 0
            kk = 0
            while c * chunk < total:
                try:
                    fd = os.open(os.path.join(claim_dir, f"c{c}"), os.O_CREAT | os.O_EXCL | os.O_WRONLY)
                    os.close(fd)
                except FileExistsError:
                    c += 1
                    continue
                for i_ in range(c * chunk, min(total, (c + 1) * chunk)):
                    yield kk, i_
                    kk += 1
                c += 1

        for k, i in indices():
            # the soft deadline truncates the *set* of runs (reported in the evidence); a run's behaviour
            # still depends on its seed only
            if time.time() > soft_deadline:
                break
            rs = run_seed(base, prop, i)
            try:
                scen, res = mod.generate_run(rs, tier)
            except Exception:
                out.write(json.dumps({"type": "harness_error", "index": i, "run_seed": rs, "what": "exception in generate_run",
                                      "tb": traceback.format_exc()}) + "\n")
                out.flush()
                continue
            if res.get("violations") or (k % selfcheck_every == 0):
                res2 = mod.replay(scen)
                if res2["digest"] != res["digest"]:
                    out.write(json.dumps({"type": "harness_error", "index": i, "run_seed": rs,
                                          "what": "generate/replay digest mismatch",
                                          "d1": res["digest"], "d2": res2["digest"], "scenario": scen}) + "\n")
                    out.flush()
                    continue
                agg["selfchecked"] = agg.get("selfchecked", 0) + 1
            mod.aggregate(agg, scen, res)
            n_done += 1
            if res.get("violations"):
                v = res["violations"][0]
                try:
                    mscen, mres = mod.minimise(scen, v["sig"])
                except Exception:
                    mscen, mres = scen, res
                    v = dict(v, minimise_error=traceback.format_exc())
                mv = mres["violations"][0] if mres.get("violations") else v
                extra = {}
                if hasattr(mod, "attribute"):
                    try:
                        extra = mod.attribute(mscen, mv)
                    except Exception:
                        extra = {"attribute_error": traceback.format_exc()}
                out.write(json.dumps({"type": "violation", "index": i, "run_seed": rs, "sig": mv["sig"],
                                      "detail": mv.get("detail"), "scenario": mscen, "digest": mres["digest"],
                                      "orig_len": mod.scenario_len(scen), "min_len": mod.scenario_len(mscen),
                                      "attribution": extra}) + "\n")
                out.flush()
                if os.environ.get("VERIF_STOP_ON_FIRST"):
                    from sim import known as K

                    if K.match(load_known(), prop, {"sig": mv["sig"], "attribution": extra}) is None:
                        break
        out.write(json.dumps({"type": "aggregate", "n_done": n_done, "agg": mod.finish_aggregate(agg)}) + "\n")
    except Exception:
        out.write(json.dumps({"type": "harness_error", "what": "worker exception", "tb": traceback.format_exc()}) + "\n")
    finally:
        out.close()


# ----------------------------------------------------------------------------------------------------
# replay (fresh interpreter)


def replay_main(argv):
    """simcheck replay <file> : exit 1 + VIOLATION line if the file still violates, 0 if it does not."""
    path = argv[0]
    setup_process()
    with open(path) as f:
        doc = json.load(f)
    mod = get_property_module(doc["property"])
    mod.warmup()
    res = mod.replay(doc["scenario"])
    quiet = "--json" in argv
    if quiet:
        print(json.dumps({"digest": res["digest"], "violations": res.get("violations", [])}))
        return 0
    print(f"replayed {path}: digest={res['digest']} recorded={doc.get('digest')}")
    for line in res.get("trace", []):
        print("  " + line)
    if res.get("violations"):
        for v in res["violations"]:
            print(f"  violation sig={v['sig']} detail={v.get('detail')}")
        print(f"VIOLATION property={doc['property']} replay={path}")
        return 1
    print("no violation on this tree")
    return 0


def fresh_replay(path, timeout=300):
    """Run a replay file in a fresh interpreter; returns dict(digest, violations) or raises HarnessError."""
    cmd = [PY, os.path.join(VERIF_DIR, "bin", "simcheck.py"), "replay", path, "--json"]
    try:
        p = subprocess.run(cmd, env=worker_env(), capture_output=True, text=True, timeout=timeout)
    except subprocess.TimeoutExpired:
        raise HarnessError(f"fresh replay of {path} timed out")
    if p.returncode != 0:
        raise HarnessError(f"fresh replay of {path} failed: rc={p.returncode}\n{p.stderr[-2000:]}")
    last = [ln for ln in p.stdout.splitlines() if ln.startswith("{")]
    if not last:
        raise HarnessError(f"fresh replay of {path} printed nothing\n{p.stderr[-2000:]}")
    return json.loads(last[-1])


# ----------------------------------------------------------------------------------------------------
# known findings


def load_known():
    if not os.path.exists(KNOWN_FILE):
        return {"findings": [], "fixed": []}
    with open(KNOWN_FILE) as f:
        return json.load(f)


# ----------------------------------------------------------------------------------------------------
# parent side


def check_main(prop: str, tier: str, runs_override=None) -> int:
    t0 = time.time()
    mod_budget = _budgets(prop, tier)
    n_runs = runs_override if runs_override is not None else mod_budget["runs"]
    soft = mod_budget["soft_s"]
    hard = mod_budget["hard_s"]
    base = base_seed()
    os.makedirs(WORK_DIR, exist_ok=True)
    os.makedirs(REPLAY_DIR, exist_ok=True)
    os.makedirs(EVIDENCE_DIR, exist_ok=True)
    tag = f"{prop}-{tier}-{os.getpid()}"
    print(f"[simcheck] property={prop} tier={tier} VERIF_SEED={base} runs={n_runs} workers={N_WORKERS}", flush=True)

    known = load_known()
    known_lines = []
    harness_errors = []
    regressions = []
    # 1. pinned replays (fresh interpreters, run concurrently with the search): listed findings must still be reported as
    #    KNOWN-FINDING; fixed entries suppress nothing - their replays are regression scenarios and must stay silent
    from concurrent.futures import ThreadPoolExecutor

    pin_pool = ThreadPoolExecutor(max_workers=4)
    pin_jobs = []
    for kf in known.get("findings", []):
        if kf["property"] == prop:
            pin_jobs.append(("finding", kf, pin_pool.submit(fresh_replay, os.path.join(VERIF_DIR, kf["pinned_replay"]))))
    for fx in known.get("fixed", []):
        if fx["property"] == prop:
            for rel in fx.get("pinned_replays", []):
                pin_jobs.append(("fixed", rel, pin_pool.submit(fresh_replay, os.path.join(VERIF_DIR, rel))))

    # 2. seeded search
    nw = max(1, min(N_WORKERS, n_runs))
    procs = []
    soft_deadline = t0 + soft
    claim_dir = os.path.join(WORK_DIR, tag + "-claims")
    os.makedirs(claim_dir, exist_ok=True)
    for w in range(nw):
        count = (n_runs - w + nw - 1) // nw
        out_path = os.path.join(WORK_DIR, f"{tag}-w{w}.jsonl")
        cmd = [PY, os.path.join(VERIF_DIR, "bin", "simcheck.py"), "_worker", prop, tier, str(base), str(w), str(nw),
               str(count), repr(soft_deadline), out_path]
        errf = open(out_path + ".err", "w")
        procs.append((subprocess.Popen(cmd, env=worker_env({"VERIF_CLAIM_DIR": claim_dir, "VERIF_TOTAL_RUNS": str(n_runs)}), stdout=errf, stderr=errf),
                      out_path, errf))
    timed_out = False
    for p, _, errf in procs:
        remaining = t0 + hard - time.time()
        try:
            p.wait(timeout=max(1.0, remaining))
        except subprocess.TimeoutExpired:
            timed_out = True
            p.kill()
            p.wait()
        errf.close()

    for kind, item, fut in pin_jobs:
        try:
            r = fut.result()
        except HarnessError as e:
            harness_errors.append(str(e))
            continue
        if kind == "finding":
            if r["violations"]:
                known_lines.append(f"KNOWN-FINDING: property={prop} {item['id']}: {item['description']}")
        elif r["violations"]:
            regressions.append((r["violations"][0], os.path.join(VERIF_DIR, item)))
    pin_pool.shutdown()
    for ln in known_lines:
        print(ln, flush=True)

    mod = get_property_module_parent(prop)
    total = mod.new_aggregate()
    n_done = 0
    violations = []
    for p, out_path, _ in procs:
        got_agg = False
        try:
            with open(out_path) as f:
                for line in f:
                    rec = json.loads(line)
                    if rec["type"] == "aggregate":
                        mod.merge_aggregate(total, rec["agg"])
                        n_done += rec["n_done"]
                        got_agg = True
                    elif rec["type"] == "violation":
                        violations.append(rec)
                    elif rec["type"] == "harness_error":
                        harness_errors.append(json.dumps(rec)[:3000])
        except FileNotFoundError:
            pass
        if not got_agg and not timed_out:
            err = ""
            try:
                err = open(out_path + ".err").read()[-3000:]
            except OSError:
                pass
            harness_errors.append(f"worker produced no aggregate (rc={p.returncode}): {err}")
    import shutil

    shutil.rmtree(claim_dir, ignore_errors=True)
    for _, out_path, _ in procs:
        for pth in (out_path, out_path + ".err"):
            try:
                os.remove(pth)
            except OSError:
                pass

    # 3. classify violations: confirm by fresh replay, match against known findings
    new_violations = []
    known_hits = {}
    violations.sort(key=lambda r: r["index"])
    confirm_cap = 2 if os.environ.get("VERIF_STOP_ON_FIRST") else 12
    for rec in violations:
        kid = match_known(known, prop, rec)
        if kid is not None:
            known_hits[kid] = known_hits.get(kid, 0) + 1
            continue
        if len(new_violations) >= confirm_cap:
            continue
        path = os.path.join(REPLAY_DIR, f"{prop}-{rec['run_seed']}.json")
        with open(path, "w") as f:
            json.dump({"property": prop, "run_seed": rec["run_seed"], "index": rec["index"], "verif_seed": base,
                       "sig": rec["sig"], "detail": rec["detail"], "digest": rec["digest"],
                       "attribution": rec.get("attribution"), "orig_len": rec["orig_len"], "min_len": rec["min_len"],
                       "scenario": rec["scenario"]}, f, indent=1)
        try:
            r = fresh_replay(path)
        except HarnessError as e:
            harness_errors.append(str(e))
            continue
        sigs = [v["sig"] for v in r["violations"]]
        if rec["sig"] not in sigs or r["digest"] != rec["digest"]:
            harness_errors.append(f"replay {path} did not reproduce: sig={rec['sig']} got={sigs} "
                                  f"digest={rec['digest']} got={r['digest']}")
            continue
        new_violations.append((rec, path))

    wall = time.time() - t0
    ev = mod.evidence(total, tier)
    ev_doc = {
        "property_id": prop,
        "tier": tier,
        "seed": base,
        "level": "exploration",
        "coverage": ev,
        "assumptions": mod.ASSUMPTIONS,
        "wall_s": round(wall, 2),
        "violations": len(new_violations) + len(regressions),
    }
    cov = ev_doc["coverage"]
    cov["evaluations"] = n_done
    cov["runs_planned"] = n_runs
    cov["runs_completed"] = n_done
    cov["truncated_by_soft_deadline"] = n_done < n_runs
    cov["runs_per_hour"] = int(n_done / max(wall, 1e-6) * 3600)
    cov["seeds_per_hour"] = cov["runs_per_hour"]
    cov["simulated_time"] = "n/a: no clock in the system under test; simulated steps are reported instead"
    cov["workers"] = nw
    cov["known_findings_reported"] = [ln for ln in known_lines]
    cov["violations_attributed_to_known_findings"] = known_hits
    cov["violations_found_unminimised_total"] = len(violations)
    cov["harness_errors"] = len(harness_errors)
    cov["fixed_defect_regression_replays_run"] = sum(len(fx.get("pinned_replays", [])) for fx in known.get("fixed", []) if fx["property"] == prop)
    with open(os.path.join(EVIDENCE_DIR, f"{prop}.json"), "w") as f:
        json.dump(ev_doc, f, indent=1, sort_keys=True)
        f.write("\n")

    print(f"[simcheck] {prop}/{tier}: runs={n_done}/{n_runs} wall={wall:.1f}s violations={len(new_violations)} "
          f"known_hits={known_hits} harness_errors={len(harness_errors)}", flush=True)
    for line in mod.summary_lines(total):
        print("[simcheck]   " + line)
    for v, path in regressions:
        print(f"[simcheck] fixed defect is back: sig={v['sig']} detail={v.get('detail')}")
        print(f"VIOLATION property={prop} replay={path}", flush=True)
    for rec, path in new_violations:
        print(f"[simcheck] violation sig={rec['sig']} detail={rec['detail']} attribution={rec.get('attribution')}")
        print(f"VIOLATION property={prop} replay={path}", flush=True)
    if new_violations or regressions:
        return 1
    if harness_errors:
        for h in harness_errors[:5]:
            print("HARNESS-ERROR: " + h, flush=True)
        return 2
    if timed_out:
        print("HARNESS-ERROR: wall-clock cap reached (exit 3)", flush=True)
        return 3
    if n_done < max(1, n_runs // 4) and not os.environ.get("VERIF_STOP_ON_FIRST"):
        print(f"HARNESS-ERROR: only {n_done} of {n_runs} planned runs completed before the soft deadline", flush=True)
        return 3
    return 0


def get_property_module_parent(prop):
    # the parent only aggregates; it needs the module's pure-python aggregate helpers.  setup_process is
    # still required because the modules import torch / linear_operator at import time.
    setup_process()
    return get_property_module(prop)


def match_known(known, prop, rec):
    from sim import known as K

    return K.match(known, prop, rec)


def _budgets(prop, tier):
    from sim import budgets

    return budgets.BUDGETS[prop][tier]
