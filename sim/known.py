"""Matching of minimised violations against /verif/known_findings.json (read-only at run time)."""
import fnmatch


def _glob(pat, val):
    if pat is None:
        return True
    return fnmatch.fnmatchcase(str(val), str(pat))


def match(known, prop, rec):
    """rec: worker violation record with 'sig' (list) and 'attribution' (dict).  Returns finding id or None."""
    attr = rec.get("attribution") or {}
    for kf in known.get("findings", []):
        if kf.get("property") != prop:
            continue
        m = kf.get("match", {})
        ok = True
        sig = rec.get("sig") or []
        for idx, pat in enumerate(m.get("sig", [])):
            if idx >= len(sig) or not _glob(pat, sig[idx]):
                ok = False
                break
        if not ok:
            continue
        for key, pat in m.get("attribution", {}).items():
            val = attr.get(key)
            if isinstance(val, list):
                if not any(_glob(pat, v) for v in val):
                    ok = False
                    break
            elif not _glob(pat, val):
                ok = False
                break
        if ok:
            return kf["id"]
    return None
