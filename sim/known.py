"""Matching of minimised violations against /verif/known_findings.json (read-only at run time)."""
import fnmatch


def _glob(pat, val):
    if pat is None:
        return True
    if isinstance(pat, list):  # any of several patterns
        return any(fnmatch.fnmatchcase(str(val), str(p_)) for p_ in pat)
    return fnmatch.fnmatchcase(str(val), str(pat))


def match(known, prop, rec):
    """rec: worker violation record with 'sig' (list) and 'attribution' (dict).  Returns finding id or None."""
    attr = rec.get("attribution") or {}
    for kf in known.get("findings", []):
        if kf.get("property") != prop:
            continue
        m = kf.get("match", {})
        ok = True
        sig = rec.get("sig") or []
        for idx, pat in enumerate(m.get("sig", [])):
            if idx >= len(sig) or not _glob(pat, sig[idx]):
                ok = False
                break
        if not ok:
            continue
        for key, pat in m.get("attribution", {}).items():
            val = attr.get(key)
            if isinstance(val, list):
                if not any(_glob(pat, v) for v in val):
                    ok = False
                    break
            elif not _glob(pat, val):
                ok = False
                break
        if ok and m.get("reader_pairs_allowed") is not None:
            # every (reading query <- culprit cache entry) pair of the violation must be one that the finding is known to involve:
            # a *new* reader of a by-design approximate entry is a new violation
            pairs = attr.get("reader_pairs") or []
            allowed = m["reader_pairs_allowed"]
            # at least one (reader <- culprit) pair must be a known one; knock-outs sometimes name additional entries whose
            # removal merely changes the path taken (e.g. a cached Cholesky factor that steers the method choice)
            if not pairs or not any(any(_glob(pat, p_) for pat in allowed) for p_ in pairs):
                ok = False
        if ok:
            return kf["id"]
    return None
