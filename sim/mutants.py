"""Sensitivity catalogue: seeded defects, each a textual edit of a *scratch copy* of the library (placed
outside /repo and /verif, deleted afterwards) that the quick check of the named property must report.

A mutant that survives means the workload or the oracle has to change, not this list.
"""
from __future__ import annotations

import os
import shutil
import tempfile

# name -> (property, relative file, [(old, new), ...], note)
CATALOGUE = {}


def _m(name, prop, file, edits, note=""):
    CATALOGUE[name] = (prop, file, edits, note)


CH = "linear_operator/utils/cholesky.py"
ST = "linear_operator/settings.py"
LO = "linear_operator/operators/_linear_operator.py"

# ---------------------------------------------------------------------------------------------- C16
_m("c16_add_full_jitter", "C16", CH, [("(info > 0) * (jitter_new - jitter_prev)", "(info > 0) * (jitter_new)")], "adds jitter_new instead of the increment")
_m("c16_no_member_mask", "C16", CH, [("((info > 0) * (jitter_new - jitter_prev))", "((info > -1) * (jitter_new - jitter_prev))")], "jitter added to every member")
_m("c16_linear_growth", "C16", CH, [("jitter * (10**i)", "jitter * (10 * i + 1)")], "10*i instead of 10**i")
_m("c16_one_more_try", "C16", CH, [("for i in range(max_tries):", "for i in range(max_tries + 1):")])
_m("c16_one_less_try", "C16", CH, [("for i in range(max_tries):", "for i in range(max(max_tries - 1, 1)):")])
_m("c16_stale_info", "C16", CH, [("        L, info = torch.linalg.cholesky_ex(Aprime, out=out)\n        if not torch.any(info):",
                                  "        L, info_new = torch.linalg.cholesky_ex(Aprime, out=out)\n        if not torch.any(info_new):")], "info not refreshed: members keep receiving jitter")
_m("c16_no_warning", "C16", CH, [("        warnings.warn(\n            f\"A not p.d., added jitter of {jitter_new:.1e} to the diagonal\",\n            NumericalWarning,\n        )\n", "")])
_m("c16_no_nan_screen", "C16", CH, [("    if isnan.any():", "    if False and isnan.any():")])
_m("c16_alias_input", "C16", CH, [("Aprime = A.clone()", "Aprime = A")], "jitter written into the caller's matrix")
_m("c16_ignore_upper", "C16", CH, [("            L = L.mT\n", "            L = L\n")])
_m("c16_float_slot_for_double", "C16", CH, [("settings.cholesky_jitter.value(A.dtype)", "settings.cholesky_jitter.value(torch.float)")])
_m("c16_return_previous_L", "C16", CH, [("        L, info = torch.linalg.cholesky_ex(Aprime, out=out)\n        if not torch.any(info):\n            return L",
                                         "        L_prev = L\n        L, info = torch.linalg.cholesky_ex(Aprime, out=out)\n        if not torch.any(info):\n            return L_prev")])
_m("c16_raise_early", "C16", CH, [("        if not torch.any(info):\n            return L\n    raise NotPSDError",
                                   "        if not torch.any(info) and i < max_tries - 1:\n            return L\n    raise NotPSDError")], "last allowed try is treated as failure")
_m("c16_return_on_partial_success", "C16", CH, [("        L, info = torch.linalg.cholesky_ex(Aprime, out=out)\n        if not torch.any(info):",
                                                 "        L, info = torch.linalg.cholesky_ex(Aprime, out=out)\n        if not torch.all(info):")], "returns as soon as one member succeeds")
_m("c16_nan_as_notpsd", "C16", CH, [("raise NanError(", "raise NotPSDError(")])
_m("c16_jitter_cumulative_all", "C16", CH, [("        jitter_prev = jitter_new\n", "        jitter_prev = 0\n")], "cumulative sum of all levels instead of the last level")

# ---------------------------------------------------------------------------------------------- C17
_m("c17_flag_restores_own_state", "C17", ST, [("self.__class__._set_state(self._prev_states.pop())", "self._prev_states.pop(); self.__class__._set_state(self.state)")])
_m("c17_flag_base_class_write", "C17", ST, [("    def _set_state(cls, state):\n        cls._state = state", "    def _set_state(cls, state):\n        _feature_flag._state = state")], "leak into every flag")
_m("c17_swapped_dtype_read", "C17", ST, [("        if dtype == torch.float:\n            return cls._global_float_value\n        elif dtype == torch.double:\n            return cls._global_double_value",
                                          "        if dtype == torch.float:\n            return cls._global_double_value\n        elif dtype == torch.double:\n            return cls._global_float_value")])
_m("c17_composite_skips_part_on_exit", "C17", ST, [("        self.covar_root_decomposition.__exit__()\n        self.log_prob.__exit__()\n        self.solves.__exit__()", "        self.covar_root_decomposition.__exit__()\n        self.solves.__exit__()")])
_m("c17_composite_swallows", "C17", ST, [("        self.symeig.__exit__()\n        self.cholesky.__exit__()\n        return False", "        self.symeig.__exit__()\n        self.cholesky.__exit__()\n        return True")])
_m("c17_linalg_dtypes_ignores_part", "C17", ST, [("        cholesky = default if cholesky is None else cholesky", "        cholesky = default")])
_m("c17_on_ignores_default", "C17", ST, [("        if cls.is_default():\n            return cls._default\n        return cls._state", "        return bool(cls._state)")])
_m("c17_snapshot_at_init_value", "C17", ST, [("    def __init__(self, value):\n        self._instance_value = value\n        # Values in force at each (possibly nested) entry of this context, restored on the matching exit\n        self._orig_values = []",
                                              "    def __init__(self, value):\n        self._instance_value = value\n        self._init_value = self.__class__.value()\n        self._orig_values = []"),
                                             ("        self._orig_values.append(self.__class__.value())\n        self.__class__._set_value(self._instance_value)",
                                              "        self._orig_values.append(self._init_value)\n        self.__class__._set_value(self._instance_value)")], "the original defect: previous value captured at construction")
_m("c17_dtype_skip_none_restore", "C17", ST, [("        if self._instance_half_value is not None:\n            cls._global_half_value = orig_half_value",
                                               "        if self._instance_half_value is not None and orig_half_value is not None:\n            cls._global_half_value = orig_half_value")], "the original defect: None is not restored")
_m("c17_dtype_restore_all", "C17", ST, [("        if self._instance_double_value is not None:\n            cls._global_double_value = orig_double_value",
                                         "        cls._global_double_value = orig_double_value")], "restores a slot it never set (cross-task clobber)")
_m("c17_no_stack", "C17", ST, [("        self._prev_states.append(self.__class__._state)", "        self._prev_states[:] = [self.__class__._state, self.__class__._state]")], "flag context nested in itself loses the outer saved state")
_m("c17_exit_only_without_exception", "C17", ST, [("    def __exit__(self, *args):\n        self.__class__._set_value(self._orig_values.pop())",
                                                   "    def __exit__(self, *args):\n        orig = self._orig_values.pop()\n        if args and args[0] is not None:\n            return False\n        self.__class__._set_value(orig)")], "value not restored when the block exits by exception")
_m("c17_max_tries_read_at_import", "C17", CH, [("def _psd_safe_cholesky(A, out=None, jitter=None, max_tries=None):", "_MT = settings.cholesky_max_tries.value()\n\n\ndef _psd_safe_cholesky(A, out=None, jitter=None, max_tries=None):"),
                                                ("        max_tries = settings.cholesky_max_tries.value()", "        max_tries = _MT")], "setting does not take effect on entry: library reads a value captured at import")


def make_scratch(name):
    """Copy /repo/linear_operator to a scratch dir outside /repo and /verif, apply the mutant; returns the dir."""
    prop, rel, edits, _ = CATALOGUE[name]
    src_repo = os.environ.get("VERIF_MUTANT_SOURCE", "/repo")
    d = tempfile.mkdtemp(prefix=f"verif-mutant-{name}-", dir=os.environ.get("VERIF_SCRATCH", "/tmp"))
    shutil.copytree(os.path.join(src_repo, "linear_operator"), os.path.join(d, "linear_operator"),
                    ignore=shutil.ignore_patterns("__pycache__"))
    path = os.path.join(d, rel)
    with open(path) as f:
        text = f.read()
    for old, new in edits:
        if text.count(old) < 1:
            shutil.rmtree(d, ignore_errors=True)
            raise RuntimeError(f"mutant {name}: pattern not found in {rel}: {old[:60]!r}")
        text = text.replace(old, new, 1)
    with open(path, "w") as f:
        f.write(text)
    return d


def apply(name):
    raise RuntimeError("in-process mutants are not used; mutants are applied to scratch copies (VERIF_REPO)")
