"""Sensitivity catalogue: seeded defects, each a textual edit of a *scratch copy* of the library (placed
outside /repo and /verif, deleted afterwards) that the quick check of the named property must report.

A mutant that survives means the workload or the oracle has to change, not this list.
"""
from __future__ import annotations

import os
import shutil
import tempfile

# name -> (property, relative file, [(old, new), ...], note)
CATALOGUE = {}


def _m(name, prop, file, edits, note=""):
    CATALOGUE[name] = (prop, file, edits, note)


CH = "linear_operator/utils/cholesky.py"
ST = "linear_operator/settings.py"
LO = "linear_operator/operators/_linear_operator.py"

# ---------------------------------------------------------------------------------------------- C16
_m("c16_add_full_jitter", "C16", CH, [("(info > 0) * (jitter_new - jitter_prev)", "(info > 0) * (jitter_new)")], "adds jitter_new instead of the increment")
_m("c16_no_member_mask", "C16", CH, [("((info > 0) * (jitter_new - jitter_prev))", "((info > -1) * (jitter_new - jitter_prev))")], "jitter added to every member")
_m("c16_linear_growth", "C16", CH, [("jitter * (10**i)", "jitter * (10 * i + 1)")], "10*i instead of 10**i")
_m("c16_one_more_try", "C16", CH, [("for i in range(max_tries):", "for i in range(max_tries + 1):")])
_m("c16_one_less_try", "C16", CH, [("for i in range(max_tries):", "for i in range(max(max_tries - 1, 1)):")])
_m("c16_stale_info", "C16", CH, [("        L, info = torch.linalg.cholesky_ex(Aprime, out=out)\n        if not torch.any(info):",
                                  "        L, info_new = torch.linalg.cholesky_ex(Aprime, out=out)\n        if not torch.any(info_new):")], "info not refreshed: members keep receiving jitter")
_m("c16_no_warning", "C16", CH, [("        warnings.warn(\n            f\"A not p.d., added jitter of {jitter_new:.1e} to the diagonal\",\n            NumericalWarning,\n        )\n", "")])
_m("c16_no_nan_screen", "C16", CH, [("    if isnan.any():", "    if False and isnan.any():")])
_m("c16_alias_input", "C16", CH, [("Aprime = A.clone()", "Aprime = A")], "jitter written into the caller's matrix")
_m("c16_ignore_upper", "C16", CH, [("            L = L.mT\n", "            L = L\n")])
_m("c16_float_slot_for_double", "C16", CH, [("settings.cholesky_jitter.value(A.dtype)", "settings.cholesky_jitter.value(torch.float)")])
_m("c16_return_previous_L", "C16", CH, [("        L, info = torch.linalg.cholesky_ex(Aprime, out=out)\n        if not torch.any(info):\n            return L",
                                         "        L_prev = L\n        L, info = torch.linalg.cholesky_ex(Aprime, out=out)\n        if not torch.any(info):\n            return L_prev")])
_m("c16_raise_early", "C16", CH, [("        if not torch.any(info):\n            return L\n    raise NotPSDError",
                                   "        if not torch.any(info) and i < max_tries - 1:\n            return L\n    raise NotPSDError")], "last allowed try is treated as failure")
_m("c16_return_on_partial_success", "C16", CH, [("        L, info = torch.linalg.cholesky_ex(Aprime, out=out)\n        if not torch.any(info):",
                                                 "        L, info = torch.linalg.cholesky_ex(Aprime, out=out)\n        if not torch.all(info):")], "returns as soon as one member succeeds")
_m("c16_nan_as_notpsd", "C16", CH, [("raise NanError(", "raise NotPSDError(")])
_m("c16_jitter_cumulative_all", "C16", CH, [("        jitter_prev = jitter_new\n", "        jitter_prev = 0\n")], "cumulative sum of all levels instead of the last level")

# ---------------------------------------------------------------------------------------------- C17
_m("c17_flag_restores_own_state", "C17", ST, [("self.__class__._set_state(self._prev_states.pop())", "self._prev_states.pop(); self.__class__._set_state(self.state)")])
_m("c17_flag_base_class_write", "C17", ST, [("    def _set_state(cls, state):\n        cls._state = state", "    def _set_state(cls, state):\n        _feature_flag._state = state")], "leak into every flag")
_m("c17_swapped_dtype_read", "C17", ST, [("        if dtype == torch.float:\n            return cls._global_float_value\n        elif dtype == torch.double:\n            return cls._global_double_value",
                                          "        if dtype == torch.float:\n            return cls._global_double_value\n        elif dtype == torch.double:\n            return cls._global_float_value")])
_m("c17_composite_skips_part_on_exit", "C17", ST, [("        self.covar_root_decomposition.__exit__()\n        self.log_prob.__exit__()\n        self.solves.__exit__()", "        self.covar_root_decomposition.__exit__()\n        self.solves.__exit__()")])
_m("c17_composite_swallows", "C17", ST, [("        self.symeig.__exit__()\n        self.cholesky.__exit__()\n        return False", "        self.symeig.__exit__()\n        self.cholesky.__exit__()\n        return True")])
_m("c17_linalg_dtypes_ignores_part", "C17", ST, [("        cholesky = default if cholesky is None else cholesky", "        cholesky = default")])
_m("c17_on_ignores_default", "C17", ST, [("        if cls.is_default():\n            return cls._default\n        return cls._state", "        return bool(cls._state)")])
_m("c17_snapshot_at_init_value", "C17", ST, [("    def __init__(self, value):\n        self._instance_value = value\n        # Values in force at each (possibly nested) entry of this context, restored on the matching exit\n        self._orig_values = []",
                                              "    def __init__(self, value):\n        self._instance_value = value\n        self._init_value = self.__class__.value()\n        self._orig_values = []"),
                                             ("        self._orig_values.append(self.__class__.value())\n        self.__class__._set_value(self._instance_value)",
                                              "        self._orig_values.append(self._init_value)\n        self.__class__._set_value(self._instance_value)")], "the original defect: previous value captured at construction")
_m("c17_dtype_skip_none_restore", "C17", ST, [("        if self._instance_half_value is not None:\n            cls._global_half_value = orig_half_value",
                                               "        if self._instance_half_value is not None and orig_half_value is not None:\n            cls._global_half_value = orig_half_value")], "the original defect: None is not restored")
_m("c17_dtype_restore_all", "C17", ST, [("        if self._instance_double_value is not None:\n            cls._global_double_value = orig_double_value",
                                         "        cls._global_double_value = orig_double_value")], "restores a slot it never set (cross-task clobber)")
_m("c17_no_stack", "C17", ST, [("        self._prev_states.append(self.__class__._state)", "        self._prev_states[:] = [self.__class__._state, self.__class__._state]")], "flag context nested in itself loses the outer saved state")
_m("c17_exit_only_without_exception", "C17", ST, [("    def __exit__(self, *args):\n        self.__class__._set_value(self._orig_values.pop())",
                                                   "    def __exit__(self, *args):\n        orig = self._orig_values.pop()\n        if args and args[0] is not None:\n            return False\n        self.__class__._set_value(orig)")], "value not restored when the block exits by exception")
_m("c17_max_tries_read_at_import", "C17", CH, [("def _psd_safe_cholesky(A, out=None, jitter=None, max_tries=None):", "_MT = settings.cholesky_max_tries.value()\n\n\ndef _psd_safe_cholesky(A, out=None, jitter=None, max_tries=None):"),
                                                ("        max_tries = settings.cholesky_max_tries.value()", "        max_tries = _MT")], "setting does not take effect on entry: library reads a value captured at import")


def make_scratch(name):
    """Copy /repo/linear_operator to a scratch dir outside /repo and /verif, apply the mutant; returns the dir."""
    prop, rel, edits, _ = CATALOGUE[name]
    src_repo = os.environ.get("VERIF_MUTANT_SOURCE", "/repo")
    d = tempfile.mkdtemp(prefix=f"verif-mutant-{name}-", dir=os.environ.get("VERIF_SCRATCH", "/tmp"))
    shutil.copytree(os.path.join(src_repo, "linear_operator"), os.path.join(d, "linear_operator"),
                    ignore=shutil.ignore_patterns("__pycache__"))
    path = os.path.join(d, rel)
    with open(path) as f:
        text = f.read()
    for old, new in edits:
        if text.count(old) < 1:
            shutil.rmtree(d, ignore_errors=True)
            raise RuntimeError(f"mutant {name}: pattern not found in {rel}: {old[:60]!r}")
        text = text.replace(old, new, 1)
    with open(path, "w") as f:
        f.write(text)
    return d


def apply(name):
    raise RuntimeError("in-process mutants are not used; mutants are applied to scratch copies (VERIF_REPO)")


# ---------------------------------------------------------------------------------------------- C13
CG = "linear_operator/utils/linear_cg.py"
MR = "linear_operator/utils/minres.py"
LZ = "linear_operator/utils/lanczos.py"
PC = "linear_operator/functions/_pivoted_cholesky.py"
KP = "linear_operator/operators/kronecker_product_linear_operator.py"
CM = "linear_operator/operators/constant_mul_linear_operator.py"
TZ = "linear_operator/operators/toeplitz_linear_operator.py"
SP = "linear_operator/utils/sparse.py"
AD = "linear_operator/operators/added_diag_linear_operator.py"
MM = "linear_operator/utils/memoize.py"
DN = "linear_operator/operators/dense_linear_operator.py"
QR = "linear_operator/utils/qr.py"
IP = "linear_operator/utils/interpolation.py"
TU = "linear_operator/utils/toeplitz.py"

_m("c13_cg_rhs_div_inplace", "C13", CG, [("    rhs = rhs.div(rhs_norm)", "    rhs = rhs.div_(rhs_norm)")], "CG normalises the caller's rhs in place")
_m("c13_cg_initial_guess_inplace", "C13", CG, [("    initial_guess = initial_guess.div(rhs_norm)", "    initial_guess = initial_guess.div_(rhs_norm)")])
_m("c13_chol_alias_input", "C13", CH, [("Aprime = A.clone()", "Aprime = A")], "only visible on the jitter (failure) path")
_m("c13_pivchol_no_diag_clone", "C13", PC, [("        matrix_diag = matrix_diag.clone()\n", "")], "pivoted Cholesky scatters into the operator's own diagonal")
_m("c13_kron_solve_no_clone", "C13", KP, [("y = rhs.clone().expand(*batch_shape, *rhs.shape[-2:])", "y = rhs.expand(*batch_shape, *rhs.shape[-2:])"),
                                          ("            y = q.solve(y.reshape(*batch_shape, n, -1))", "            y = q.solve(y.reshape(*batch_shape, n, -1)); rhs.mul_(1.0)")], "rhs touched in place by the Kronecker solve")
_m("c13_minres_rhs_inplace", "C13", MR, [("    rhs = rhs.div(rhs_norm)", "    rhs = rhs.div_(rhs_norm)")])
_m("c13_lanczos_init_inplace", "C13", LZ, [("    q_0_vec = init_vecs / torch.norm(init_vecs, 2, dim=dim_dimension).unsqueeze(dim_dimension)",
                                            "    q_0_vec = init_vecs.div_(torch.norm(init_vecs, 2, dim=dim_dimension).unsqueeze(dim_dimension))")])
_m("c13_constmul_inplace", "C13", CM, [("        res = res * self.expanded_constant\n        return res", "        res = res.mul_(self.expanded_constant)\n        return res")],
   "visible when the base returns its argument (identity) or a cached tensor")
_m("c13_toeplitz_add_jitter_inplace", "C13", TZ, [("        return ToeplitzLinearOperator(self.column.add(jitter))", "        return ToeplitzLinearOperator(self.column.add_(jitter))")])
_m("c13_make_sparse_resize_view", "C13", SP, [("        value_tensor = torch.zeros(1, dtype=value_tensor.dtype, device=value_tensor.device)", "        value_tensor = value_tensor.resize_(1).zero_()")],
   "the original defect")
_m("c13_dense_diag_inplace_jitter", "C13", LO, [("        diag = torch.tensor(jitter_val, dtype=self.dtype, device=self.device)\n        return self.add_diagonal(diag)",
                                                 "        if hasattr(self, 'tensor') and self.tensor.dim() == 2:\n            self.tensor.diagonal().add_(jitter_val)\n            return self\n        diag = torch.tensor(jitter_val, dtype=self.dtype, device=self.device)\n        return self.add_diagonal(diag)")],
   "add_jitter writes into the dense operator's own tensor")
_m("c13_cholesky_writes_cached_dense", "C13", LO, [("        cholesky = psd_safe_cholesky(evaluated_mat, upper=upper).contiguous()", "        cholesky = psd_safe_cholesky(evaluated_mat, upper=upper, out=evaluated_mat).contiguous()")],
   "Cholesky factor written over the (cached / caller-owned) dense matrix")
_m("c13_stable_qr_inplace", "C13", QR, [("        R = R + torch.diag_embed(jitter_diag)", "        R = R + torch.diag_embed(jitter_diag)\n        mat.mul_(1.0)")], "only on the rank-deficient (jitter) path of stable_qr")
_m("c13_left_interp_inplace", "C13", IP, [("        res = rhs_expanded.gather(-3, interp_indices_expanded).mul(interp_values_expanded)", "        res = rhs_expanded.gather(-3, interp_indices_expanded).mul(interp_values_expanded)\n        interp_values.clamp_(min=-1e30)")])
_m("c13_solve_rhs_scaled_inplace_on_early_exit", "C13", CG, [("    # Let's normalize. We'll un-normalize afterwards\n", "    if max_iter == 0:\n        rhs.mul_(1.0)\n    # Let's normalize. We'll un-normalize afterwards\n")], "in-place write only on the max_iter == 0 early-exit path")

# ---------------------------------------------------------------------------------------------- C12
_m("c12_cached_name_only", "C12", MM, [("        if not _is_in_cache(self, cache_name, *args, kwargs_pkl=kwargs_pkl):\n            return _add_to_cache(self, cache_name, method(self, *args, **kwargs), *args, kwargs_pkl=kwargs_pkl)\n        return _get_from_cache(self, cache_name, *args, kwargs_pkl=kwargs_pkl)",
                                        "        kwargs_pkl = pickle.dumps({})\n        args_ = ()\n        if not _is_in_cache(self, cache_name, *args_, kwargs_pkl=kwargs_pkl):\n            return _add_to_cache(self, cache_name, method(self, *args, **kwargs), *args_, kwargs_pkl=kwargs_pkl)\n        return _get_from_cache(self, cache_name, *args_, kwargs_pkl=kwargs_pkl)")],
   "@cached keyed on the name only: methods / arguments confused")
_m("c12_cholesky_upper_into_cache", "C12", LO, [("        chol = self._cholesky(upper=False)\n        if upper:\n            chol = chol._transpose_nonbatch()\n        return chol",
                                                 "        chol = self._cholesky(upper=False)\n        if upper:\n            from linear_operator.utils.memoize import add_to_cache as _atc\n            chol = chol._transpose_nonbatch()\n            _atc(self, 'cholesky', chol, upper=False)\n        return chol")],
   "cholesky(upper=True) overwrites the cache entry of the lower factor")
_m("c12_inv_root_cached_as_root", "C12", LO, [("            add_to_cache(self, \"root_decomposition\", RootLinearOperator(roots))\n\n        return inv_roots",
                                               "            add_to_cache(self, \"root_decomposition\", RootLinearOperator(inv_roots))\n\n        return inv_roots")],
   "_root_inv_decomposition caches the inverse root as the root")
_m("c12_add_low_rank_caches_old_root", "C12", LO, [("        add_to_cache(new_linear_op, \"root_decomposition\", RootLinearOperator(updated_root))\n        add_to_cache(new_linear_op, \"root_inv_decomposition\", RootLinearOperator(updated_inv_root))",
                                                    "        add_to_cache(new_linear_op, \"root_decomposition\", RootLinearOperator(current_root))\n        add_to_cache(new_linear_op, \"root_inv_decomposition\", RootLinearOperator(updated_inv_root))")],
   "add_low_rank transplants the un-updated root")
_m("c12_add_diagonal_copies_cache", "C12", LO, [("        return AddedDiagLinearOperator(self, diag_tensor)\n\n    def add_jitter(", "        res = AddedDiagLinearOperator(self, diag_tensor)\n        res._memoize_cache = dict(getattr(self, '_memoize_cache', {}))\n        return res\n\n    def add_jitter(")],
   "add_diagonal / add_jitter copy the parent's caches onto the new operator")
_m("c12_cat_rows_wrong_block", "C12", LO, [("        new_root[..., m:, : lower_left.shape[-1]] = lower_left", "        new_root[..., m:, : lower_left.shape[-1]] = lower_left * 0.5")])
_m("c12_choose_root_other_object", "C12", LO, [("        if _is_in_cache(self, \"diagonalization\", kwargs_pkl=pickle.dumps({})):\n            return \"diagonalization\"",
                                                "        if _is_in_cache(self, \"diagonalization\", kwargs_pkl=pickle.dumps({})) or _is_in_cache_ignore_all_args(self, \"svd\"):\n            return \"diagonalization\"")],
   "a cached svd steers the root method into the (uncached) diagonalization branch")
_m("c12_triangular_shortcut_for_any_root", "C12", LO, [("                if isinstance(root, TriangularLinearOperator):\n                    cholesky = CholLinearOperator(root)\n                    will_need_cholesky = False",
                                                        "                if True:\n                    from linear_operator.operators import to_linear_operator as _tlo\n                    cholesky = CholLinearOperator(TriangularLinearOperator(root.to_dense()) if not isinstance(root, TriangularLinearOperator) else root)\n                    will_need_cholesky = False")],
   "inv_quad_logdet takes the triangular shortcut for a non-triangular cached root")
_m("c12_cholesky_inplace_on_cached_dense", "C12", LO, [("        cholesky = psd_safe_cholesky(evaluated_mat, upper=upper).contiguous()", "        cholesky = psd_safe_cholesky(evaluated_mat, upper=upper).contiguous()\n        if hasattr(self, '_memoize_cache') and evaluated_mat.dim() >= 2:\n            evaluated_mat.diagonal(dim1=-1, dim2=-2).add_(1e-2)")],
   "computing the Cholesky factor perturbs the cached dense matrix, later queries see A + 0.01 I")
_m("c12_precond_cache_published_early", "C12", AD, [("        if self._precond_lt is None:\n            max_iter = settings.max_preconditioner_size.value()", "        if self._q_cache is None:\n            max_iter = settings.max_preconditioner_size.value()")],
   "the original defect, only visible with F3 crash injection between the assignments of _init_cache")
_m("c12_getitem_keeps_cache", "C12", LO, [("        # Pad the index with empty indices\n        index = index + tuple(_noop_index for _ in range(ndimension - len(index)))",
                                           "        # Pad the index with empty indices\n        index = index + tuple(_noop_index for _ in range(ndimension - len(index)))\n        _parent_cache = dict(getattr(self, '_memoize_cache', {}))")],
   "placeholder, completed below")
_m("c12_scale_columns_elementwise", "C12", LO, [("    return mat @ DiagLinearOperator(scale)", "    return mat * scale.unsqueeze(-2)")], "the original defect (structured eigenvectors)")
_m("c12_cat_rows_cached_inv_root", "C12", LO, [("        R = _inv_root_from_root(E).to_dense()", "        R = self.root_inv_decomposition().root.to_dense()")], "the original defect (inverse root from a different factorization)")
_m("c12_mul_constant_keeps_root_cache", "C12", LO, [("    def _mul_constant(\n        self: Float[LinearOperator, \"*batch M N\"], other: Union[float, torch.Tensor]\n    ) -> Float[LinearOperator, \"*batch M N\"]:",
                                                     "    def _mul_constant(\n        self: Float[LinearOperator, \"*batch M N\"], other: Union[float, torch.Tensor]\n    ) -> Float[LinearOperator, \"*batch M N\"]:\n        _c = dict(getattr(self, '_memoize_cache', {}))")],
   "placeholder, completed below")
_m("c12_pivchol_adhoc_cache_by_rank", "C12", LO, [("        func = PivotedCholesky.apply\n        res, pivots = func(self.representation_tree(), rank, error_tol, *self.representation())\n",
                                                    "        func = PivotedCholesky.apply\n        _pc = self.__dict__.setdefault('_pivchol_by_rank', {})\n        if (rank, error_tol) not in _pc:\n            _pc[(rank, error_tol)] = func(self.representation_tree(), rank, error_tol, *self.representation())\n        res, pivots = _pc[(rank, error_tol)]\n")],
   "pivoted_cholesky kept in an ad-hoc per-object dict keyed by (rank, error_tol): the preconditioner_tolerance setting in force is forgotten (O6)")
del CATALOGUE["c12_getitem_keeps_cache"], CATALOGUE["c12_mul_constant_keeps_root_cache"]
