"""Seams the simulator owns: verbose_linalg log capture, randn source, cholesky_ex / eigh / svd / qr fault
fakes, sys.monitoring crash injector.  None needs a hook in /repo: all are module attributes looked up at
call time, or interpreter facilities."""
from __future__ import annotations

import logging


class _Capture(logging.Handler):
    def __init__(self):
        super().__init__(level=logging.DEBUG)
        self.records = []

    def emit(self, record):
        self.records.append(record.getMessage())


LOG_CAPTURE = _Capture()


def install_log_capture():
    """Replace the stdout handler of settings.verbose_linalg by a capturing one (reach probes)."""
    from linear_operator import settings

    lg = settings.verbose_linalg.logger
    for h in list(lg.handlers):
        lg.removeHandler(h)
    lg.addHandler(LOG_CAPTURE)
    lg.propagate = False


def drain_log():
    recs = LOG_CAPTURE.records
    LOG_CAPTURE.records = []
    return recs
