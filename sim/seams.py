"""Seams the simulator owns: verbose_linalg log capture, randn source, cholesky_ex / eigh / svd / qr fault
fakes, sys.monitoring crash injector.  None needs a hook in /repo: all are module attributes looked up at
call time, or interpreter facilities."""
from __future__ import annotations

import logging


class _Capture(logging.Handler):
    def __init__(self):
        super().__init__(level=logging.DEBUG)
        self.records = []

    def emit(self, record):
        self.records.append(record.getMessage())


LOG_CAPTURE = _Capture()


def install_log_capture():
    """Replace the stdout handler of settings.verbose_linalg by a capturing one (reach probes)."""
    from linear_operator import settings

    lg = settings.verbose_linalg.logger
    for h in list(lg.handlers):
        lg.removeHandler(h)
    lg.addHandler(LOG_CAPTURE)
    lg.propagate = False


def drain_log():
    recs = LOG_CAPTURE.records
    LOG_CAPTURE.records = []
    return recs


# ----------------------------------------------------------------------------------------------------
# fault exception types


class SimFault(RuntimeError):
    """F1: a user callback reports failure."""


class SimAllocFailure(RuntimeError):
    """F3: allocation failure / interrupt at an arbitrary Python line of the library."""


# ----------------------------------------------------------------------------------------------------
# randn source


import os
import sys

import torch

REAL = {
    "randn": torch.randn,
    "cholesky_ex": torch.linalg.cholesky_ex,
    "eigh": torch.linalg.eigh,
    "eigvalsh": torch.linalg.eigvalsh,
    "svd": torch.linalg.svd,
    "qr": torch.linalg.qr,
}

_SAMPLER_FUNCS = {"zero_mean_mvn_samples"}


class RandnSource:
    """Replacement for torch.randn backed by a private generator that the simulator reseeds before every
    query, so that a historied object and its fresh copy see identical draws.  Dispatches on the calling
    function: sampler sites can be switched to probe (basis-vector) mode, algorithm-internal sites
    (Lanczos start vectors, randomized preconditioner, SLQ probes) always get seeded Gaussian draws."""

    def __init__(self):
        self.gen = torch.Generator()
        self.draws = []
        self.probing = False
        self.probe_total = None
        self._sel = None
        self._offset = 0

    def reseed(self, seed):
        self.gen.manual_seed(seed & 0x7FFFFFFFFFFFFFFF)
        self.draws = []

    def probe_begin(self):
        self.probing = True
        self.probe_total = None
        self._sel = None
        self._offset = 0

    def probe_select(self, j):
        self._sel = j
        self._offset = 0

    def probe_end(self):
        self.probing = False
        self._sel = None

    def __call__(self, *size, **kw):
        if len(size) == 1 and isinstance(size[0], (tuple, list, torch.Size)):
            size = tuple(size[0])
        caller = sys._getframe(1).f_code.co_name
        self.draws.append((caller, tuple(int(s) for s in size), str(kw.get("dtype"))))
        if self.probing and caller in _SAMPLER_FUNCS:
            kw2 = {k: v for k, v in kw.items() if k in ("dtype", "device")}
            out = torch.zeros(*size, **kw2)
            n = out.numel()
            if self._sel is None:
                # counting call: zero noise
                self._offset += n
                self.probe_total = self._offset
            else:
                j = self._sel - self._offset
                if 0 <= j < n:
                    out.view(-1)[j] = 1.0
                self._offset += n
            return out
        kw = dict(kw)
        kw.pop("generator", None)
        return REAL["randn"](*size, generator=self.gen, **kw)


RANDN = RandnSource()


# ----------------------------------------------------------------------------------------------------
# torch.linalg seams (F2a, F2b) with call counting


class LinalgSeam:
    """Wraps torch.linalg.{cholesky_ex,eigh,eigvalsh,svd,qr}: counts calls; F2a makes cholesky_ex report
    failure for all members on `attempts` consecutive calls starting at call index k; F2b makes the k-th call
    of one of the others raise LinAlgError.  A real failure is never masked."""

    def __init__(self):
        self.counts = {k: 0 for k in ("cholesky_ex", "eigh", "eigvalsh", "svd", "qr")}
        self.armed = None  # dict(kind=..., fn=..., at=..., attempts=...)
        self.fired = 0

    def reset(self):
        for k in self.counts:
            self.counts[k] = 0
        self.armed = None
        self.fired = 0

    def cholesky_ex(self, A, *, upper=False, check_errors=False, out=None):
        L, info = REAL["cholesky_ex"](A, upper=upper, check_errors=check_errors, out=out)
        self.counts["cholesky_ex"] += 1
        a = self.armed
        if a is not None and a["fn"] == "cholesky_ex":
            c = self.counts["cholesky_ex"]
            if a["at"] <= c < a["at"] + a["attempts"]:
                self.fired += 1
                info = torch.ones_like(info) if out is None else info.fill_(1)
                if out is None:
                    L = L.clone()
                L.fill_(float("nan"))
        return L, info

    def _raiser(self, name):
        def f(*args, **kw):
            self.counts[name] += 1
            a = self.armed
            if a is not None and a["fn"] == name and self.counts[name] == a["at"]:
                self.fired += 1
                raise torch.linalg.LinAlgError(f"linalg.{name}: (injected) the algorithm failed to converge")
            return REAL[name](*args, **kw)

        f.__name__ = name
        return f


LINALG = LinalgSeam()
_EIGH, _EIGVALSH, _SVD, _QR = (LINALG._raiser(n) for n in ("eigh", "eigvalsh", "svd", "qr"))


def install_all():
    torch.randn = RANDN
    torch.linalg.cholesky_ex = LINALG.cholesky_ex
    torch.linalg.eigh = _EIGH
    torch.linalg.eigvalsh = _EIGVALSH
    torch.linalg.svd = _SVD
    torch.linalg.qr = _QR


def uninstall_all():
    torch.randn = REAL["randn"]
    torch.linalg.cholesky_ex = REAL["cholesky_ex"]
    torch.linalg.eigh = REAL["eigh"]
    torch.linalg.eigvalsh = REAL["eigvalsh"]
    torch.linalg.svd = REAL["svd"]
    torch.linalg.qr = REAL["qr"]
    LINALG.reset()
    CRASH.disarm()


# ----------------------------------------------------------------------------------------------------
# F3: line-granular crash injection via sys.monitoring (PEP 669)


class CrashInjector:
    """Counts / traces LINE events in linear_operator/** (except settings.py) and raises SimAllocFailure at
    a chosen (file, line, occurrence).  Events are enabled only while counting or armed."""

    def __init__(self):
        self.tool = None
        self.lib_prefix = None
        self.mode = None  # None | "trace" | "armed"
        self.trace = []
        self.target = None
        self.seen = 0
        self.fired_at = None

    def _ensure(self):
        if self.tool is not None:
            return
        import linear_operator

        self.lib_prefix = os.path.dirname(os.path.abspath(linear_operator.__file__)) + os.sep
        self.skip = {self.lib_prefix + "settings.py", self.lib_prefix + "beta_features.py"}
        mon = sys.monitoring
        for tid in (mon.PROFILER_ID, mon.OPTIMIZER_ID, 3, 4):
            if mon.get_tool(tid) is None:
                mon.use_tool_id(tid, "verif-sim")
                self.tool = tid
                break
        if self.tool is None:
            raise RuntimeError("no free sys.monitoring tool id")
        mon.register_callback(self.tool, mon.events.LINE, self._on_line)

    def _on_line(self, code, line):
        fn = code.co_filename
        if not fn.startswith(self.lib_prefix) or fn in self.skip:
            return sys.monitoring.DISABLE
        if self.mode == "trace":
            self.trace.append((fn[len(self.lib_prefix):], line))
        elif self.mode == "armed":
            t = self.target
            if t[0] == fn[len(self.lib_prefix):] and t[1] == line:
                self.seen += 1
                if self.seen == t[2]:
                    self.mode = None
                    self.fired_at = (t[0], t[1], t[2])
                    sys.monitoring.set_events(self.tool, 0)
                    raise SimAllocFailure(f"injected failure at {t[0]}:{t[1]} (occurrence {t[2]})")
        return None

    def start_trace(self):
        self._ensure()
        self.trace = []
        self.mode = "trace"
        sys.monitoring.restart_events()
        sys.monitoring.set_events(self.tool, sys.monitoring.events.LINE)

    def stop_trace(self):
        if self.tool is not None:
            sys.monitoring.set_events(self.tool, 0)
        self.mode = None
        t = self.trace
        self.trace = []
        return t

    def arm(self, file, line, occurrence):
        self._ensure()
        self.target = (file, line, occurrence)
        self.seen = 0
        self.fired_at = None
        self.mode = "armed"
        sys.monitoring.restart_events()
        sys.monitoring.set_events(self.tool, sys.monitoring.events.LINE)

    def disarm(self):
        if self.tool is not None:
            sys.monitoring.set_events(self.tool, 0)
        self.mode = None
        self.target = None


CRASH = CrashInjector()
