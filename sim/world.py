"""The simulated world shared by C12 and C13: caller tensors in stressed layouts, operator recipes, fresh
rebuilds, derivations, the query alphabet with method-independent error functionals, settings vector."""
from __future__ import annotations

import math
import warnings

import torch

import linear_operator
from linear_operator import operators as O
from linear_operator import settings as S
from linear_operator.operators import LinearOperator
from sim import seams, storage
from sim.engine import HarnessError

REAL_RANDN = seams.REAL["randn"]

# ----------------------------------------------------------------------------------------------------
# settings vector (flat "set" events; scoping of contexts is C17's business)

SETTINGS = {
    "max_cholesky_size": S.max_cholesky_size,
    "max_root_decomposition_size": S.max_root_decomposition_size,
    "max_cg_iterations": S.max_cg_iterations,
    "max_lanczos_quadrature_iterations": S.max_lanczos_quadrature_iterations,
    "num_trace_samples": S.num_trace_samples,
    "max_preconditioner_size": S.max_preconditioner_size,
    "min_preconditioning_size": S.min_preconditioning_size,
    "cg_tolerance": S.cg_tolerance,
    "tridiagonal_jitter": S.tridiagonal_jitter,
    "cholesky_max_tries": S.cholesky_max_tries,
    "preconditioner_tolerance": S.preconditioner_tolerance,
    "minres_tolerance": S.minres_tolerance,
    "num_contour_quadrature": S.num_contour_quadrature,
    "fast_root": S._fast_covar_root_decomposition,
    "fast_log_prob": S._fast_log_prob,
    "fast_solves": S._fast_solves,
    "memory_efficient": S.memory_efficient,
    "ciq_samples": S.ciq_samples,
    "debug": S.debug,
    "deterministic_probes": S.deterministic_probes,
    "terminate_cg_by_size": S.terminate_cg_by_size,
    "default_preconditioner": linear_operator.beta_features.default_preconditioner,
    "linalg_symeig_dtype": S._linalg_dtype_symeig,
    "linalg_cholesky_dtype": S._linalg_dtype_cholesky,
    "verbose_linalg": S.verbose_linalg,
}


_JITTER_SLOTS = {"cholesky_jitter_double": "_global_double_value", "cholesky_jitter_float": "_global_float_value"}


def _get_setting(name):
    if name in _JITTER_SLOTS:
        return getattr(S.cholesky_jitter, _JITTER_SLOTS[name])
    c = SETTINGS[name]
    if issubclass(c, S._feature_flag):
        return c._state
    return c._global_value


def _set_setting(name, v):
    if name in _JITTER_SLOTS:
        setattr(S.cholesky_jitter, _JITTER_SLOTS[name], v)
        return
    c = SETTINGS[name]
    if isinstance(v, dict) and "dtype" in v:
        v = getattr(torch, v["dtype"].split(".")[1])
    if issubclass(c, S._feature_flag):
        c._set_state(v)
    else:
        c._set_value(v)


_PRISTINE = None
_PRISTINE_JITTER = None


def capture_pristine():
    global _PRISTINE, _PRISTINE_JITTER
    if _PRISTINE is None:
        _PRISTINE = {k: _get_setting(k) for k in SETTINGS}
        _PRISTINE.update({k: _get_setting(k) for k in _JITTER_SLOTS})
        _PRISTINE_JITTER = (S.cholesky_jitter._global_float_value, S.cholesky_jitter._global_double_value, S.cholesky_jitter._global_half_value)


def restore_pristine():
    capture_pristine()
    for k, v in _PRISTINE.items():
        _set_setting(k, v)
    (S.cholesky_jitter._global_float_value, S.cholesky_jitter._global_double_value, S.cholesky_jitter._global_half_value) = _PRISTINE_JITTER
    S.deterministic_probes.probe_vectors = None
    S.verbose_linalg._set_state(True)  # reach probes: captured by seams.LOG_CAPTURE, never printed
    seams.uninstall_all()
    seams.drain_log()
    torch.set_default_dtype(torch.float32)


def settings_snapshot():
    out = {k: _get_setting(k) for k in SETTINGS if k != "verbose_linalg"}
    out.update({k: _get_setting(k) for k in _JITTER_SLOTS})
    return out


def settings_apply(snap):
    for k, v in snap.items():
        _set_setting(k, v)


# ----------------------------------------------------------------------------------------------------
# user-side parties: a minimal user subclass and a kernel covar_func, both with F1 hooks


class CallbackState:
    """Counts invocations of a user callback; raises SimFault at the armed invocation (F1)."""

    def __init__(self):
        self.count = 0
        self.armed_at = None
        self.fired = False

    def tick(self):
        self.count += 1
        if self.armed_at is not None and self.count == self.armed_at:
            self.armed_at = None
            self.fired = True
            raise seams.SimFault("user callback failed (injected)")


class UserOp(LinearOperator):
    """Minimal user-defined operator: dense _matmul, _size, _transpose_nonbatch."""

    def __init__(self, mat, cb=None):
        super().__init__(mat, cb=cb)
        self.mat = mat
        self.cb = cb

    def _matmul(self, rhs):
        if self.cb is not None:
            self.cb.tick()
        return self.mat.matmul(rhs)

    def _size(self):
        return self.mat.size()

    def _transpose_nonbatch(self):
        return UserOp(self.mat.mT, cb=self.cb)


class RBF:
    def __init__(self, cb):
        self.cb = cb

    def __call__(self, x1, x2, lengthscale=None, **kw):
        if self.cb is not None:
            self.cb.tick()
        x1 = x1 / lengthscale
        x2 = x2 / lengthscale
        d = (x1.unsqueeze(-2) - x2.unsqueeze(-3)).pow(2).sum(-1)
        # RBF plus a nugget on coincident points, so that the kernel matrix stays well conditioned (cond <~ 1e3)
        return torch.exp(-0.5 * d) + 0.05 * (d < 1e-12).to(d.dtype)


# ----------------------------------------------------------------------------------------------------
# recipes: pure functions from (ids -> fresh objects) to an operator


def _tri(get, a, upper):
    return O.TriangularLinearOperator(get(a["L"]), upper=upper)


RECIPES = {
    "Dense": lambda get, a: O.DenseLinearOperator(get(a["A"])),
    "ToLinOp": lambda get, a: O.to_linear_operator(get(a["A"])),
    "Diag": lambda get, a: O.DiagLinearOperator(get(a["d"])),
    "ConstantDiag": lambda get, a: O.ConstantDiagLinearOperator(get(a["c"]), diag_shape=a["n"]),
    "Identity": lambda get, a: O.IdentityLinearOperator(a["n"], batch_shape=torch.Size(a.get("batch", [])), dtype=storage.DTYPES[a["dtype"]]),
    "Toeplitz": lambda get, a: O.ToeplitzLinearOperator(get(a["col"])),
    "Root": lambda get, a: O.RootLinearOperator(get(a["R"])),
    "LowRankRoot": lambda get, a: O.LowRankRootLinearOperator(get(a["R"])),
    "Chol": lambda get, a: O.CholLinearOperator(_tri(get, a, a.get("upper", False)), upper=a.get("upper", False)),
    "Triangular": lambda get, a: _tri(get, a, a.get("upper", False)),
    "AddedDiag": lambda get, a: O.AddedDiagLinearOperator(get(a["base"]), get(a["diag"])),
    "LowRankRootAddedDiag": lambda get, a: O.LowRankRootAddedDiagLinearOperator(get(a["base"]), get(a["diag"])),
    "Kronecker": lambda get, a: O.KroneckerProductLinearOperator(*[get(x) for x in a["factors"]]),
    "KroneckerAddedDiag": lambda get, a: O.KroneckerProductAddedDiagLinearOperator(get(a["base"]), get(a["diag"])),
    "SumKronecker": lambda get, a: O.SumKroneckerLinearOperator(get(a["a"]), get(a["b"])),
    "Sum": lambda get, a: O.SumLinearOperator(*[get(x) for x in a["terms"]]),
    "PsdSum": lambda get, a: O.PsdSumLinearOperator(*[get(x) for x in a["terms"]]),
    "Add": lambda get, a: get(a["a"]) + get(a["b"]),
    "ConstantMul": lambda get, a: O.ConstantMulLinearOperator(get(a["base"]), get(a["c"])),
    "Mul": lambda get, a: O.MulLinearOperator(get(a["a"]), get(a["b"])),
    "MatmulRRt": lambda get, a: O.MatmulLinearOperator(get(a["a"]), get(a["a"]).mT),
    "BlockDiag": lambda get, a: O.BlockDiagLinearOperator(get(a["base"])),
    "BlockInterleaved": lambda get, a: O.BlockInterleavedLinearOperator(get(a["base"])),
    "SumBatch": lambda get, a: O.SumBatchLinearOperator(get(a["base"])),
    "BatchRepeat": lambda get, a: O.BatchRepeatLinearOperator(get(a["base"]), batch_repeat=torch.Size(a["repeat"])),
    "Interpolated": lambda get, a: O.InterpolatedLinearOperator(get(a["base"]), get(a["idx"]), get(a["val"]), get(a["idx"]), get(a["val"])),
    "Masked": lambda get, a: O.MaskedLinearOperator(get(a["base"]), get(a["mask"]), get(a["mask"])),
    "Kernel": lambda get, a: O.KernelLinearOperator(get(a["x"]), get(a["x"]), covar_func=RBF(get("@cb")), lengthscale=get(a["ls"])),
    "User": lambda get, a: UserOp(get(a["A"]), cb=get("@cb")),
}

# ----------------------------------------------------------------------------------------------------
# derivations


def _index_spec(spec):
    out = []
    for s in spec:
        if isinstance(s, list) and s and s[0] == "slice":
            out.append(slice(s[1], s[2], s[3]))
        elif s == "...":
            out.append(Ellipsis)
        elif isinstance(s, list):
            out.append(torch.tensor(s, dtype=torch.long))
        else:
            out.append(s)
    return tuple(out)


def derive(src, how, a, get):
    if how == "add_jitter":
        return src.add_jitter(a["val"])
    if how == "add_diagonal":
        return src.add_diagonal(get(a["d"]))
    if how == "add_low_rank":
        kw = {}
        if a.get("root_decomp_method"):
            kw["root_decomp_method"] = a["root_decomp_method"]
        if a.get("root_inv_decomp_method"):
            kw["root_inv_decomp_method"] = a["root_inv_decomp_method"]
        if "generate_roots" in a:
            kw["generate_roots"] = a["generate_roots"]
        return src.add_low_rank(get(a["B"]), **kw)
    if how == "cat_rows":
        return src.cat_rows(get(a["cross"]), get(a["new"]), generate_roots=a.get("generate_roots", True),
                            generate_inv_roots=a.get("generate_inv_roots", True))
    if how == "getitem":
        return src[_index_spec(a["index"])]
    if how == "mT":
        return src.mT
    if how == "mul_scalar":
        return src * a["c"]
    if how == "mul_tensor":
        return src * get(a["c"])
    if how == "div_scalar":
        return src / a["c"]
    if how == "add_op":
        return src + get(a["other"])
    if how == "add_tensor":
        return src + get(a["other"])
    if how == "expand":
        return src.expand(*a["shape"])
    if how == "repeat":
        return src.repeat(*a["sizes"])
    if how == "unsqueeze":
        return src.unsqueeze(a["dim"])
    if how == "clone":
        return src.clone()
    if how == "detach":
        return src.detach()
    if how == "to_double":
        return src.to(torch.float64)
    if how == "to_float":
        return src.to(torch.float32)
    if how == "evaluate_kernel":
        return src.evaluate_kernel()
    if how == "rebuild_repr":
        return src.representation_tree()(*src.representation())
    if how == "requires_grad_":
        return src.requires_grad_(a["val"])
    if how == "detach_":
        return src.detach_()
    raise HarnessError(f"unknown derivation {how}")


# ----------------------------------------------------------------------------------------------------
# queries: (runner, functional).  A functional maps (raw result, D, ctx) -> error (float, relative),
# uniqueness-free, so that legitimately different exact methods agree.


class QueryResult:
    __slots__ = ("kind", "err", "shape_sig", "tensors", "detail", "ops", "raw")

    def __init__(self, kind, err, shape_sig, tensors, detail="", ops=(), raw=None):
        self.raw = raw  # the object the library returned (identity matters for the key-discipline oracle)
        self.kind = kind  # "ok"
        self.err = err
        self.shape_sig = shape_sig
        self.tensors = tensors  # raw tensors for the event log digest
        self.detail = detail
        self.ops = ops  # operator objects returned to the caller (C13 tracks them)


def _rel(x, ref):
    x = x.double()
    ref = ref.double()
    if x.shape != ref.shape:
        try:
            x, ref = torch.broadcast_tensors(x, ref)
        except RuntimeError:
            return float("inf")
    d = float(torch.linalg.norm((x - ref).reshape(-1)))
    s = float(torch.linalg.norm(ref.reshape(-1)))
    if not math.isfinite(d):
        return float("inf")
    return d / max(s, 1e-30)


def _dense(x):
    return x.to_dense() if isinstance(x, LinearOperator) else x


def _sig(*xs):
    out = []
    for x in xs:
        if x is None:
            out.append("None")
        elif isinstance(x, LinearOperator):
            out.append(("op", tuple(x.shape), str(x.dtype)))
        elif torch.is_tensor(x):
            out.append(("t", tuple(x.shape), str(x.dtype)))
        else:
            out.append(type(x).__name__)
    return tuple(out)


def _eye_like(D):
    n = D.shape[-1]
    return torch.eye(n, dtype=torch.float64).expand(D.shape[:-2] + (n, n))


def q_to_dense(op, a, D, get):
    X = op.to_dense()
    return QueryResult("ok", _rel(X, D), _sig(X), [X])


def q_diagonal(op, a, D, get):
    x = op.diagonal()
    return QueryResult("ok", _rel(x, D.diagonal(dim1=-2, dim2=-1)), _sig(x), [x])


def q_matmul(op, a, D, get):
    rhs = get(a["rhs"])
    X = op.matmul(rhs)
    ref = D.double() @ rhs.double() if rhs.dim() > 1 else (D.double() @ rhs.double().unsqueeze(-1)).squeeze(-1)
    return QueryResult("ok", _rel(X, ref), _sig(X), [X])


def q_cholesky(op, a, D, get):
    upper = a.get("upper", False)
    res = op.cholesky(upper=True) if upper else op.cholesky()
    L = _dense(res).double()
    n = L.shape[-1]
    bad = float(L.tril(-1).abs().max()) if upper else (float(L.triu(1).abs().max()) if n > 1 else 0.0)
    rec = (L.mT @ L) if upper else (L @ L.mT)
    err = _rel(rec, D)
    detail = ""
    if bad > 1e-12 * max(1.0, float(L.abs().max())):
        err = max(err, 1.0)
        detail = f"factor is not {'upper' if upper else 'lower'} triangular (max wrong-side entry {bad:.3g})"
    return QueryResult("ok", err, _sig(res), [L], detail, ops=[res] if isinstance(res, LinearOperator) else [], raw=res)


def q_root_decomposition(op, a, D, get):
    res = op.root_decomposition(method=a["method"]) if a.get("method") else op.root_decomposition()
    R = _dense(res.root).double()
    return QueryResult("ok", _rel(R @ R.mT, D), ("root", tuple(res.shape)), [R], ops=[res], raw=res)


def q_root_inv_decomposition(op, a, D, get):
    kw = {}
    if a.get("method"):
        kw["method"] = a["method"]
    if a.get("initial_vectors"):
        kw["initial_vectors"] = get(a["initial_vectors"])
    if a.get("test_vectors"):
        kw["test_vectors"] = get(a["test_vectors"])
    res = op.root_inv_decomposition(**kw)
    R = _dense(res.root).double()
    n = D.shape[-1]
    err = float(torch.linalg.norm((R @ R.mT @ D.double() - _eye_like(D)).reshape(-1))) / math.sqrt(n * max(1, D[..., 0, 0].numel()))
    if not math.isfinite(err):
        err = float("inf")
    return QueryResult("ok", err, ("root_inv", tuple(res.shape)), [R], ops=[res], raw=res)


def _eig_err(evals, evecs, D):
    w = evals.double()
    if evecs is None:
        return float("inf"), "eigenvectors are None"
    Q = _dense(evecs).double()
    rec = Q @ torch.diag_embed(w) @ Q.mT
    k = Q.shape[-1]
    orth = float(torch.linalg.norm((Q.mT @ Q - torch.eye(k, dtype=torch.float64)).reshape(-1))) / math.sqrt(max(k, 1))
    return max(_rel(rec, D), orth), ""


def q_diagonalization(op, a, D, get):
    raw_ = op.diagonalization(method=a["method"]) if a.get("method") else op.diagonalization()
    evals, evecs = raw_
    err, detail = _eig_err(evals, evecs, D)
    return QueryResult("ok", err, _sig(evals, evecs), [evals, _dense(evecs)] if evecs is not None else [evals], detail,
                       ops=[evecs] if isinstance(evecs, LinearOperator) else [], raw=raw_)


def q_eigh(op, a, D, get):
    evals, evecs = op.eigh()
    err, detail = _eig_err(evals, evecs, D)
    return QueryResult("ok", err, _sig(evals, evecs), [evals, _dense(evecs)] if evecs is not None else [evals], detail,
                       ops=[evecs] if isinstance(evecs, LinearOperator) else [])


def q_eigvalsh(op, a, D, get):
    evals = op.eigvalsh()
    if isinstance(evals, tuple):
        return QueryResult("ok", float("inf"), _sig(*evals), [evals[0]], "eigvalsh returned a tuple")
    ref = torch.linalg.eigvalsh(D.double())
    err = _rel(torch.sort(evals.double(), dim=-1).values, ref)
    return QueryResult("ok", err, _sig(evals), [evals])


def q_svd(op, a, D, get):
    raw_ = op.svd()
    U, Sv, V = raw_
    Ud, Vd = _dense(U).double(), _dense(V).double()
    rec = Ud @ torch.diag_embed(Sv.double()) @ Vd.mT
    return QueryResult("ok", _rel(rec, D), _sig(U, Sv, V), [Ud, Sv, Vd], ops=[x for x in (U, V) if isinstance(x, LinearOperator)], raw=raw_)


def q_solve(op, a, D, get):
    rhs = get(a["rhs"])
    lhs = get(a["lhs"]) if a.get("lhs") else None
    X = op.solve(rhs) if lhs is None else op.solve(rhs, lhs)
    r2 = rhs.double() if rhs.dim() > 1 else rhs.double().unsqueeze(-1)
    ref = torch.linalg.solve(D.double(), r2)
    if lhs is not None:
        ref = lhs.double() @ ref
    if rhs.dim() == 1 and lhs is None:
        ref = ref.squeeze(-1)
    return QueryResult("ok", _rel(X, ref), _sig(X), [X])


def q_logdet(op, a, D, get):
    x = op.logdet()
    ref = torch.logdet(D.double())
    err = float((x.double() - ref).abs().max() / ref.abs().max().clamp_min(1.0))
    if not math.isfinite(err):
        err = float("inf")
    return QueryResult("ok", err, _sig(x), [x])


def q_inv_quad(op, a, D, get):
    rhs = get(a["rhs"])
    red = a.get("reduce", True)
    x = op.inv_quad(rhs, reduce_inv_quad=red)
    r2 = rhs.double() if rhs.dim() > 1 else rhs.double().unsqueeze(-1)
    ref = (r2 * torch.linalg.solve(D.double(), r2)).sum(-2)
    if red:
        ref = ref.sum(-1)
    return QueryResult("ok", _rel(x, ref), _sig(x), [x])


def q_inv_quad_logdet(op, a, D, get):
    rhs = get(a["rhs"]) if a.get("rhs") else None
    red = a.get("reduce", True)
    want_logdet = a.get("logdet", True)
    iq, ld = op.inv_quad_logdet(inv_quad_rhs=rhs, logdet=want_logdet, reduce_inv_quad=red)
    err = 0.0
    ts = []
    if rhs is not None:
        r2 = rhs.double() if rhs.dim() > 1 else rhs.double().unsqueeze(-1)
        ref = (r2 * torch.linalg.solve(D.double(), r2)).sum(-2)
        if red:
            ref = ref.sum(-1)
        err = max(err, _rel(iq, ref))
        ts.append(iq)
    if want_logdet:
        ref = torch.logdet(D.double())
        e = float((ld.double() - ref).abs().max() / ref.abs().max().clamp_min(1.0))
        err = max(err, e if math.isfinite(e) else float("inf"))
        ts.append(ld)
    return QueryResult("ok", err, _sig(iq, ld), ts)


def q_preconditioner(op, a, D, get):
    closure, P, logdet_p = op._preconditioner()
    if closure is None and P is None and logdet_p is None:
        return QueryResult("ok", 0.0, ("none",), [])
    if closure is None or P is None or logdet_p is None:
        return QueryResult("ok", float("inf"), _sig(P, logdet_p), [], f"incomplete preconditioner triple: closure={'set' if closure else None}, "
                           f"P={'set' if P is not None else None}, logdet={'set' if logdet_p is not None else None}")
    Praw = _dense(P)
    Pd = Praw.double()
    n = Pd.shape[-1]
    g = torch.Generator().manual_seed(11)
    V = REAL_RANDN(*Pd.shape[:-2], n, 2, dtype=Praw.dtype, generator=g)
    back = closure(Praw @ V)
    e1 = _rel(back, V)
    ref = torch.logdet(Pd)
    e2 = float((torch.as_tensor(logdet_p).double() - ref).abs().max() / ref.abs().max().clamp_min(1.0))
    return QueryResult("ok", max(e1, e2 if math.isfinite(e2) else float("inf")), _sig(P, torch.as_tensor(logdet_p)), [Pd, torch.as_tensor(logdet_p)],
                       ops=[P] if isinstance(P, LinearOperator) else [])


def q_pivoted_cholesky(op, a, D, get):
    L = op.pivoted_cholesky(rank=a["rank"])
    Ld = _dense(L).double()
    # low-rank approximation error measured against D; the fresh copy measures the same quantity
    return QueryResult("ok", _rel(Ld @ Ld.mT, D), _sig(L), [Ld])


def q_sqrt_inv_matmul(op, a, D, get):
    rhs = get(a["rhs"])
    lhs = get(a["lhs"]) if a.get("lhs") else None
    w, Q = torch.linalg.eigh(D.double())
    isq = Q @ torch.diag_embed(w.clamp_min(1e-300).rsqrt()) @ Q.mT
    r2 = rhs.double() if rhs.dim() > 1 else rhs.double().unsqueeze(-1)
    if lhs is None:
        X = op.sqrt_inv_matmul(rhs)
        ref = isq @ r2
        if rhs.dim() == 1:
            ref = ref.squeeze(-1)
        return QueryResult("ok", _rel(X, ref), _sig(X), [X])
    X, iq = op.sqrt_inv_matmul(rhs, lhs)
    ref = lhs.double() @ isq @ r2
    return QueryResult("ok", _rel(X, ref), _sig(X, iq), [X, iq])


def q_inverse(op, a, D, get):
    inv = op.inverse()
    X = _dense(inv).double()
    err = float(torch.linalg.norm((X @ D.double() - _eye_like(D)).reshape(-1))) / math.sqrt(D.shape[-1])
    return QueryResult("ok", err if math.isfinite(err) else float("inf"), _sig(inv), [X], ops=[inv] if isinstance(inv, LinearOperator) else [])


def q_samples(op, a, D, get):
    """Sampling as a linear map: the noise source returns basis vectors, one call per scalar noise coordinate;
    the columns assemble R with samples = R z; err = ||R R^T - D||."""
    src = seams.RANDN
    src.probe_begin()
    try:
        first = op.zero_mean_mvn_samples(1)
        total = src.probe_total
        if total is None or total == 0 or total > 400:
            return QueryResult("ok", float("nan"), _sig(first), [], f"sampler consumed {total} noise coordinates (not probed)")
        cols = []
        for j in range(total):
            src.probe_select(j)
            s = op.zero_mean_mvn_samples(1)
            cols.append(s.double().reshape(-1))
        src.probe_select(None)
        zero = first.double().reshape(-1)
    finally:
        src.probe_end()
    R = torch.stack(cols, dim=-1)  # (batch*n) x total
    lin = float(zero.abs().max())
    bs = D.shape[:-2]
    n = D.shape[-1]
    nb = 1
    for b in bs:
        nb *= b
    Rb = R.reshape(nb, n, total)
    Db = D.double().reshape(nb, n, n)
    # samples of different batch members must be independent: cross-covariances vanish
    full = R @ R.T
    blockdiag = torch.block_diag(*[Db[i] for i in range(nb)])
    err = _rel(full, blockdiag)
    if lin > 1e-9 * max(1.0, float(D.abs().max())):
        err = max(err, 1.0)
    return QueryResult("ok", err, _sig(first), [Rb], "" if lin == 0 else f"zero noise gives non-zero sample ({lin:.3g})")


QUERIES = {
    "to_dense": q_to_dense,
    "diagonal": q_diagonal,
    "matmul": q_matmul,
    "cholesky": q_cholesky,
    "root_decomposition": q_root_decomposition,
    "root_inv_decomposition": q_root_inv_decomposition,
    "diagonalization": q_diagonalization,
    "eigh": q_eigh,
    "eigvalsh": q_eigvalsh,
    "svd": q_svd,
    "solve": q_solve,
    "logdet": q_logdet,
    "inv_quad": q_inv_quad,
    "inv_quad_logdet": q_inv_quad_logdet,
    "preconditioner": q_preconditioner,
    "pivoted_cholesky": q_pivoted_cholesky,
    "sqrt_inv_matmul": q_sqrt_inv_matmul,
    "inverse": q_inverse,
    "samples": q_samples,
}
PSD_QUERIES = ["cholesky", "root_decomposition", "root_inv_decomposition", "diagonalization", "eigh", "eigvalsh", "svd", "solve", "logdet",
               "inv_quad", "inv_quad_logdet", "preconditioner", "pivoted_cholesky", "sqrt_inv_matmul", "samples"]
ANY_QUERIES = ["to_dense", "diagonal", "matmul"]


# ----------------------------------------------------------------------------------------------------
# cache inspection (provenance, knockout, O2)


ADHOC_CACHE_ATTRS = ["_q_cache", "_r_cache", "_noise", "_constant_diag", "_piv_chol_self", "_precond_lt", "_precond_logdet_cache",
                     "_default_preconditioner_cache", "_sparse_left_interp_t_memo", "_sparse_right_interp_t_memo", "_left_interp_indices_memo",
                     "_right_interp_indices_memo", "_left_interp_values_memo", "_right_interp_values_memo"]


def cache_key_name(k):
    if isinstance(k, tuple):
        name = k[0]
        name = getattr(name, "__name__", str(name))
        import pickle

        try:
            kw = pickle.loads(k[2]) if len(k) > 2 else {}
        except Exception:
            kw = {}
        args = k[1] if len(k) > 1 else ()
        def _r(x):
            if torch.is_tensor(x):
                return f"tensor{list(x.shape)}"
            return repr(x)

        extra = ",".join([_r(x) for x in args] + [f"{kk}={_r(vv)}" for kk, vv in sorted(kw.items())])
        return f"{name}({extra})"
    return getattr(k, "__name__", str(k))


def sub_operators(op, prefix="", seen=None, depth=0):
    """Yield (path, operator) for op and the operators it holds (args, kwargs, attributes named in _args)."""
    if seen is None:
        seen = set()
    if id(op) in seen or depth > 6:
        return
    seen.add(id(op))
    yield prefix or ".", op
    for i, arg in enumerate(getattr(op, "_args", ())):
        if isinstance(arg, LinearOperator):
            yield from sub_operators(arg, f"{prefix}.{i}", seen, depth + 1)
    for k, arg in getattr(op, "_kwargs", {}).items():
        if isinstance(arg, LinearOperator):
            yield from sub_operators(arg, f"{prefix}.{k}", seen, depth + 1)


def cache_entries(op, with_ids=False):
    """List of (path, entry name) over op and its sub-operators, memoize dict and ad-hoc attributes
    (with_ids: (path, name, id of the stored value), so that an overwritten entry is seen as a new one)."""
    out = []
    for path, o in sub_operators(op):
        for k, v in list(getattr(o, "_memoize_cache", {}).items()):
            out.append((path, cache_key_name(k), id(v)) if with_ids else (path, cache_key_name(k)))
        for attr in ADHOC_CACHE_ATTRS:
            if getattr(o, attr, None) is not None and attr in getattr(o, "__dict__", {}):
                out.append((path, "@" + attr, id(getattr(o, attr))) if with_ids else (path, "@" + attr))
    return out


def knock_out(op, path, name):
    for p, o in sub_operators(op):
        if p != path:
            continue
        if name.startswith("@"):
            if name[1:] in o.__dict__:
                if name[1:] in ("_default_preconditioner_cache", "_sparse_left_interp_t_memo", "_sparse_right_interp_t_memo",
                                "_left_interp_indices_memo", "_right_interp_indices_memo", "_left_interp_values_memo", "_right_interp_values_memo"):
                    del o.__dict__[name[1:]]
                else:
                    o.__dict__[name[1:]] = None
            return True
        mc = getattr(o, "_memoize_cache", {})
        for k in list(mc.keys()):
            if cache_key_name(k) == name:
                del mc[k]
                return True
    return False


def _proj_errors(R, M, D, inverse=False):
    """(full error, error restricted to the column space of R) of M ~ D (or M ~ D^-1 when inverse)."""
    R = R.double()
    D = D.double()
    n = D.shape[-1]
    if inverse:
        full = float(torch.linalg.norm((M @ D - _eye_like(D)).reshape(-1))) / math.sqrt(n)
    else:
        full = _rel(M, D)
    try:
        U, Sv, _ = torch.linalg.svd(R, full_matrices=False)
        worst = 0.0
        Ub = U.reshape(-1, U.shape[-2], U.shape[-1])
        Sb = Sv.reshape(-1, Sv.shape[-1])
        Mb = M.expand(D.shape).reshape(-1, n, n) if M.shape != D.shape else M.reshape(-1, n, n)
        Db = D.reshape(-1, n, n)
        for b in range(Ub.shape[0]):
            keep = Sb[b] > 1e-10 * Sb[b].max().clamp_min(1e-300)
            Q = Ub[b][:, keep]
            k = Q.shape[-1]
            if k == 0:
                worst = max(worst, 1.0)
                continue
            PM = Q.T @ Mb[b] @ Q
            PD = Q.T @ Db[b] @ Q
            if inverse:
                e = float(torch.linalg.norm(PM @ PD - torch.eye(k, dtype=torch.float64))) / math.sqrt(k)
            else:
                e = float(torch.linalg.norm(PM - PD) / torch.linalg.norm(PD).clamp_min(1e-300))
            worst = max(worst, e if math.isfinite(e) else float("inf"))
        proj = worst
    except Exception:
        proj = full
    if not math.isfinite(full):
        full = float("inf")
    return full, proj


def entry_error(op, path, name, fresh=None):
    """(full, projected) error of a cached factorization (memoize entry `name` on the sub-operator at `path`) against
    that sub-operator's own dense matrix (taken from the fresh rebuild); None for entries that are not factorizations.
    A truncated / deflated Lanczos factor is exact on its own column space (projected error ~ 0) although its full error
    is large: that is a legitimate approximation; a factor that is wrong on its own range is not."""
    import re

    for p, o in sub_operators(op):
        if p != path:
            continue
        mc = getattr(o, "_memoize_cache", {})
        for k, val in mc.items():
            if cache_key_name(k) != name:
                continue
            base = re.match(r"^(\w+)", name).group(1)
            try:
                fo = dict(sub_operators(fresh)).get(path) if fresh is not None else None
                if fo is None:
                    return None
                D = fo.to_dense().double()
                if base == "root_decomposition":
                    R = _dense(val.root).double()
                    return _proj_errors(R, R @ R.mT, D)
                if base == "root_inv_decomposition":
                    R = _dense(val.root).double()
                    return _proj_errors(R, R @ R.mT, D, inverse=True)
                if base == "diagonalization":
                    if val[1] is None:
                        return None
                    Q = _dense(val[1]).double()
                    return _proj_errors(Q, Q @ torch.diag_embed(val[0].double()) @ Q.mT, D)
                if base == "cholesky":
                    L = _dense(val).double()
                    e = _rel(L @ L.mT, D)
                    return e, e
                if base == "svd":
                    U, Sv, V = val
                    e = _rel(_dense(U).double() @ torch.diag_embed(Sv.double()) @ _dense(V).double().mT, D)
                    return e, e
            except Exception:
                return None
            return None
    return None
