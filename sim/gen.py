"""Seeded, state-dependent generation of history scenarios (swarm configuration per run)."""
from __future__ import annotations

import math
import random

import torch

from sim import storage, world

_REAL_QR = torch.linalg.qr

ALL_RECIPES = ["Dense", "ToLinOp", "Diag", "ConstantDiag", "Identity", "Toeplitz", "Root", "Chol", "AddedDiag", "LowRankRootAddedDiag",
               "Kronecker", "KroneckerAddedDiag", "SumKronecker", "Sum", "PsdSum", "Add", "ConstantMul", "Mul", "MatmulRRt", "BlockDiag",
               "BlockInterleaved", "SumBatch", "BatchRepeat", "Interpolated", "Masked", "Kernel", "User", "Triangular"]
ALL_DERIVES = ["add_jitter", "add_diagonal", "add_low_rank", "cat_rows", "getitem", "mT", "mul_scalar", "add_op", "expand", "repeat",
               "unsqueeze", "clone", "detach", "to_double", "evaluate_kernel", "rebuild_repr", "add_tensor", "div_scalar"]
FAULT_KINDS = ["cb", "chol_info", "linalg_err", "crash"]


class Gen:
    def __init__(self, seed, mode, tier):
        self.rng = random.Random(seed)
        self.tg = torch.Generator().manual_seed(seed & 0x7FFFFFFF)
        self.mode = mode
        rng = self.rng
        self.dtype = "float64" if rng.random() < 0.8 else "float32"
        self.n = rng.randint(2, 8)
        self.batch = rng.choice([[], [], [], [2], [1], [2, 1], [3, 2]]) if rng.random() < 0.45 else []
        self.steps = rng.randint(4, 14) if tier != "thorough" else rng.randint(4, 26)  # thorough: longer histories
        self.nt = 0
        self.no = 0
        # swarm: enabled subsets
        k = rng.randint(3, 6)
        self.recipes = rng.sample(ALL_RECIPES, k)
        if rng.random() < 0.5 and "Dense" not in self.recipes:
            self.recipes.append("Dense")
        self.derives = rng.sample(ALL_DERIVES, rng.randint(2, 6))
        nq = rng.randint(3, len(world.PSD_QUERIES))
        self.queries = rng.sample(world.PSD_QUERIES, nq) + rng.sample(world.ANY_QUERIES, rng.randint(0, 2))
        # cache-coupled queries are weighted up (they read / write shared cache entries)
        self.qweight = {q: (4 if q in ("root_decomposition", "root_inv_decomposition", "diagonalization", "cholesky") else
                            3 if q in ("inv_quad_logdet", "logdet", "solve", "samples", "preconditioner", "svd") else 1) for q in self.queries}
        self.focus = None
        self.p_focus = rng.choice([0.5, 0.7, 0.9])
        # themed runs (correlated swarm subsets): a uniformly random subset rarely contains the *combination* a stateful
        # mechanism needs (class with an ad-hoc cache + the settings that select it + the queries that read it)
        self.theme = None
        self._theme_flippable = None
        self._theme_initial = None
        if rng.random() < 0.4:
            self.theme = rng.choice(["precond", "roots", "derive", "lazy"])
            if self.theme == "precond":
                self.recipes = rng.sample(["AddedDiag", "AddedDiag", "KroneckerAddedDiag", "LowRankRootAddedDiag", "Dense", "Toeplitz", "Root"], 3) + ["AddedDiag"]
                self.queries = ["logdet", "inv_quad_logdet", "preconditioner", "solve", "inv_quad", "pivoted_cholesky"] + rng.sample(world.PSD_QUERIES, 2)
                self.derives = rng.sample(["add_jitter", "add_diagonal", "mul_scalar", "getitem", "expand", "clone", "add_op"], 3)
                self._theme_flippable = ["max_preconditioner_size"] * 7 + ["preconditioner_tolerance"] * 4 + [
                    "min_preconditioning_size", "max_cholesky_size", "fast_log_prob", "fast_solves", "num_trace_samples", "deterministic_probes"]
                self.focus_classes = ("AddedDiagLinearOperator", "KroneckerProductAddedDiagLinearOperator", "LowRankRootAddedDiagLinearOperator")
                self.steps = rng.randint(8, 14) if tier != "thorough" else rng.randint(8, 26)
                self._theme_initial = [("max_cholesky_size", 0), ("min_preconditioning_size", 0), ("cg_tolerance", 1e-9),
                                       ("max_preconditioner_size", rng.choice([2, 3, 15]))]
            elif self.theme == "roots":
                self.queries = ["root_decomposition", "root_inv_decomposition", "diagonalization", "cholesky", "samples", "svd",
                                "inv_quad_logdet", "eigh", "logdet", "solve"] + rng.sample(world.PSD_QUERIES, 2)
                if rng.random() < 0.5:
                    # start in the iterative regime, possibly with a truncated Lanczos budget, so that approximate factors get
                    # cached before the regime flips back
                    self._theme_initial = [("max_cholesky_size", 0), ("max_root_decomposition_size", rng.choice([2, 3, 100]))]
                self.derives = ["add_low_rank", "cat_rows"] + rng.sample(ALL_DERIVES, 2)
                self._theme_flippable = ["max_cholesky_size", "max_root_decomposition_size", "fast_root", "fast_log_prob", "tridiagonal_jitter", "ciq_samples"]
            elif self.theme == "derive":
                self.queries = ["cholesky", "root_decomposition", "root_inv_decomposition", "logdet", "solve", "diagonalization", "to_dense",
                                "diagonal", "svd", "inv_quad_logdet"]
                self.derives = ["getitem", "getitem", "mT", "mul_scalar", "expand", "repeat", "unsqueeze", "add_jitter", "add_diagonal", "div_scalar",
                                "clone", "detach"]
            else:  # lazily evaluated / memoising classes
                self.recipes = rng.sample(["Kernel", "Kernel", "Interpolated", "BatchRepeat", "Kronecker", "SumKronecker", "KroneckerAddedDiag",
                                           "Masked", "BlockDiag", "Mul"], 4)
                self.queries = rng.sample(world.PSD_QUERIES, 6) + ["to_dense", "diagonal", "matmul"]
                self.derives = ["getitem", "mT", "evaluate_kernel", "rebuild_repr", "add_jitter", "mul_scalar", "expand"]
            self.qweight = {q: self.qweight.get(q, 2) for q in self.queries}
            if self.theme == "precond":
                self.qweight.update({"preconditioner": 6, "logdet": 4, "inv_quad_logdet": 4, "pivoted_cholesky": 4})
            self.p_focus = 0.9
        self.fault_kinds = [] if rng.random() < 0.5 else rng.sample(FAULT_KINDS, rng.randint(1, 3))
        if "cb" in self.fault_kinds and not ({"User", "Kernel"} & set(self.recipes)):
            self.recipes.append(rng.choice(["User", "Kernel"]))  # F1 needs a party with a callback
        self.fault_rate = rng.choice([0.1, 0.2, 0.33])
        self.faults_left = 3
        self.flip_settings = rng.random() < 0.7
        self.p_same_query_again = rng.choice([0.1, 0.3, 0.5])
        self.p_parent_after_child = rng.choice([0.1, 0.3])
        self.layout_weights = ([("contig", 6), ("transposed", 1), ("expanded", 1), ("slice", 1), ("permuted", 1)] if mode == "C12" else
                               [("contig", 2), ("transposed", 2), ("expanded", 2), ("slice", 3), ("permuted", 2)])
        self.cond = rng.choice([10.0, 100.0, 1000.0])
        self.last_query = None
        self.initial_sets = self.initial_settings()

    # ------------------------------------------------------------------------------------------ settings
    def setting_domain(self, name):
        n = self.n
        N = n * 2
        return {
            "max_cholesky_size": [0, n - 1, n, 800, 800],
            "max_root_decomposition_size": [100, 100, 100, N + 4, N + 4, 3, 2],
            "max_cg_iterations": [1000, 3 * N + 24, 3 * N + 24, 3],
            "max_lanczos_quadrature_iterations": [20, 20, 3, N + 2],
            "num_trace_samples": [10, 10, 1, 40],
            "max_preconditioner_size": [15, 15, 0, 2, 3] if self.theme != "precond" else [15, 2, 3, 2, 3, 1],
            "min_preconditioning_size": [2000, 0, 0],
            "cg_tolerance": [1, 1, 1e-3, 1e-9],
            "tridiagonal_jitter": [1e-6, 1e-6, 0.0, 1e-3],
            "cholesky_max_tries": [3, 3, 1, 5],
            "preconditioner_tolerance": [1e-3, 1e-3, 1e-9, 0.3],
            "fast_root": [None, True, False],
            "fast_log_prob": [None, True, False],
            "fast_solves": [None, True, False],
            "memory_efficient": [None, True],
            "ciq_samples": [None, None, True],
            "debug": [None, False],
            "deterministic_probes": [None, None, True],
            "terminate_cg_by_size": [None, True],
            "default_preconditioner": [None, None, True],
            "num_contour_quadrature": [15, 15, 7],
            "cholesky_jitter_double": [1e-8, 1e-8, 1e-4, 1e-2],
            "cholesky_jitter_float": [1e-6, 1e-6, 1e-3, 1e-2],
        }.get(name)

    FLIPPABLE = ["max_cholesky_size", "max_root_decomposition_size", "max_cg_iterations", "max_lanczos_quadrature_iterations", "num_trace_samples",
                 "max_preconditioner_size", "min_preconditioning_size", "cg_tolerance", "tridiagonal_jitter", "cholesky_max_tries",
                 "preconditioner_tolerance", "fast_root", "fast_log_prob", "fast_solves", "memory_efficient", "ciq_samples", "debug",
                 "deterministic_probes", "terminate_cg_by_size", "default_preconditioner", "num_contour_quadrature", "cholesky_jitter_double",
                 "cholesky_jitter_float"]

    def initial_settings(self):
        rng = self.rng
        out = []
        # about half of the runs start in an "iterative" regime so that CG / Lanczos / preconditioner paths run at n <= 12
        if rng.random() < 0.55:
            out.append({"k": "set", "name": "max_cholesky_size", "value": rng.choice([0, 0, self.n - 1])})
            if rng.random() < 0.6:
                out.append({"k": "set", "name": "min_preconditioning_size", "value": 0})
            if rng.random() < 0.7:
                out.append({"k": "set", "name": "cg_tolerance", "value": rng.choice([1e-3, 1e-9])})
        if self._theme_initial:
            out = [{"k": "set", "name": n_, "value": v_} for n_, v_ in self._theme_initial]
        if any(o["name"] == "cg_tolerance" and o["value"] < 1e-2 for o in out):
            # a tolerance that float arithmetic cannot reach would make CG spin for the default 1000 iterations on a 12 x 12 matrix
            out.append({"k": "set", "name": "max_cg_iterations", "value": 4 * self.n + 24})
        heavy = ["max_cholesky_size", "max_preconditioner_size", "min_preconditioning_size", "max_root_decomposition_size", "fast_root",
                 "fast_log_prob", "fast_solves", "max_lanczos_quadrature_iterations"]
        self.flippable = list(dict.fromkeys(rng.sample(heavy, rng.randint(1, 4)) + rng.sample(self.FLIPPABLE, rng.randint(1, 4))))
        if self._theme_flippable:
            self.flippable = list(self._theme_flippable)
        else:
            for name in rng.sample(self.flippable, rng.randint(0, min(3, len(self.flippable)))):
                out.append({"k": "set", "name": name, "value": rng.choice(self.setting_domain(name))})
        self._set_hist = {}
        for o in out:
            self._set_hist.setdefault(o["name"], []).append(o["value"])
        return out

    # ------------------------------------------------------------------------------------------ tensors
    def tid(self):
        self.nt += 1
        return f"t{self.nt}"

    def oid(self):
        self.no += 1
        return f"o{self.no}"

    def layout(self):
        names, w = zip(*self.layout_weights)
        return self.rng.choices(names, weights=w)[0]

    def tensor_op(self, data, role, layout=None, dtype=None):
        t = self.tid()
        dtype = dtype or self.dtype
        data = data.to(storage.DTYPES[dtype])
        return t, {"k": "tensor", "id": t, "dtype": dtype, "layout": layout or self.layout(), "role": role, "data": storage.tolist_exact(data)}

    def randn(self, *shape):
        from sim import seams

        return seams.REAL["randn"](*shape, dtype=torch.float64, generator=self.tg)

    def psd(self, n, batch=None):
        batch = self.batch if batch is None else batch
        shape = list(batch) + [n, n]
        X = self.randn(*shape)
        Q, _ = _REAL_QR(X)
        # distinct, well separated eigenvalues, condition number <= self.cond
        base = torch.logspace(0, math.log10(self.cond), n, dtype=torch.float64) if n > 1 else torch.ones(1, dtype=torch.float64)
        lam = base * (1 + 0.2 * torch.rand(*(list(batch) + [n]), dtype=torch.float64, generator=self.tg))
        lam = lam * self.rng.choice([1.0, 1.0, 0.1, 3.0])
        A = Q @ torch.diag_embed(lam) @ Q.mT
        return (A + A.mT) / 2

    def posvec(self, n, batch=None):
        batch = self.batch if batch is None else batch
        return 0.5 + 2.0 * torch.rand(*(list(batch) + [n]), dtype=torch.float64, generator=self.tg)

    # ------------------------------------------------------------------------------------------ builds
    def build(self, w, recipe=None, depth=0):
        """Returns (ops, new object id)."""
        rng = self.rng
        recipe = recipe or rng.choice(self.recipes)
        n = self.n
        ops = []
        oid = None

        def T(data, role, **kw):
            t, o = self.tensor_op(data, role, **kw)
            ops.append(o)
            return t

        def sub(kind_pref=None, size=None, psd=True):
            """id of an operator to use as a component: an existing compatible one (sharing!) or a new simple one."""
            size = size or n
            cands = [o for o, r in w.objs.items() if r.psd and r.D.shape[-1] == size and list(r.D.shape[:-2]) == list(self.batch)
                     and (kind_pref is None or r.cls in kind_pref)]
            if cands and rng.random() < 0.6:
                return rng.choice(cands)
            simple = kind_pref[0] if kind_pref else rng.choice(["Dense", "Dense", "Root", "Toeplitz", "Diag", "Identity", "ConstantDiag", "Chol"])
            sops, so = self.build(w, {"DenseLinearOperator": "Dense", "DiagLinearOperator": "Diag", "ConstantDiagLinearOperator": "ConstantDiag",
                                      "KroneckerProductLinearOperator": "Kronecker", "LowRankRootLinearOperator": "LowRankRoot",
                                      "RootLinearOperator": "Root", "ToeplitzLinearOperator": "Toeplitz"}.get(simple, simple),
                                  depth + 1) if size == n else self._build_sized(simple, size)
            ops.extend(sops)
            return so

        a = {}
        if recipe in ("Dense", "ToLinOp", "User"):
            a = {"A": T(self.psd(n), "psd matrix")}
        elif recipe == "Diag":
            a = {"d": T(self.posvec(n), "diagonal")}
        elif recipe == "ConstantDiag":
            a = {"c": T(self.posvec(1), "constant diagonal value", layout="contig"), "n": n}
        elif recipe == "Identity":
            a = {"n": n, "batch": list(self.batch), "dtype": self.dtype}
        elif recipe == "Toeplitz":
            rho = rng.uniform(0.2, 0.8)
            col = torch.tensor([rho ** k for k in range(n)], dtype=torch.float64) * rng.choice([1.0, 2.0])
            col = col.expand(*(list(self.batch) + [n])).clone()
            a = {"col": T(col, "toeplitz column")}
        elif recipe == "Root":
            # a root of a well conditioned matrix: the Cholesky factor of a PSD matrix of the world's spectrum, rotated so that it
            # is not triangular, optionally with one extra small column (n x (n+1) root)
            L = torch.linalg.cholesky(self.psd(n))
            Q, _ = _REAL_QR(self.randn(*(list(self.batch) + [n, n])))
            R = L @ Q
            if rng.random() < 0.5:
                R = torch.cat([R, 0.1 * self.randn(*(list(self.batch) + [n, 1]))], dim=-1)
            a = {"R": T(R, "root")}
        elif recipe == "LowRankRoot":
            k = max(1, n // 2)
            a = {"R": T(self.randn(*(list(self.batch) + [n, k])), "low-rank root")}
        elif recipe in ("Chol", "Triangular"):
            L = torch.linalg.cholesky(self.psd(n))
            upper = rng.random() < 0.3
            a = {"L": T(L.mT.contiguous() if upper else L, "triangular factor"), "upper": upper}
        elif recipe == "AddedDiag":
            base = sub(["DenseLinearOperator", "RootLinearOperator", "ToeplitzLinearOperator", "KroneckerProductLinearOperator"])
            dsops, d = self.build(w, rng.choice(["Diag", "ConstantDiag", "Identity"]), depth + 1)
            ops.extend(dsops)
            a = {"base": base, "diag": d}
        elif recipe == "LowRankRootAddedDiag":
            lsops, l = self.build(w, "LowRankRoot", depth + 1)
            dsops, d = self.build(w, rng.choice(["Diag", "ConstantDiag", "Identity"]), depth + 1)
            ops.extend(lsops + dsops)
            a = {"base": l, "diag": d}
        elif recipe in ("Kronecker", "KroneckerAddedDiag", "SumKronecker"):
            n1, n2 = rng.choice([(2, 2), (2, 3), (3, 2), (3, 4), (2, 4), (3, 3)])

            def kron():
                same = rng.random() < 0.3 and n1 == n2
                f1ops, f1 = self._build_sized(rng.choice(["Dense", "Dense", "Toeplitz", "Diag"]), n1)
                ops.extend(f1ops)
                if same:
                    f2 = f1
                else:
                    f2ops, f2 = self._build_sized(rng.choice(["Dense", "Dense", "Root"]), n2)
                    ops.extend(f2ops)
                ko = self.oid()
                ops.append({"k": "build", "id": ko, "recipe": "Kronecker", "args": {"factors": [f1, f2]}})
                return ko

            if recipe == "Kronecker":
                ko = kron()
                return ops, ko
            if recipe == "KroneckerAddedDiag":
                ko = kron()
                kind = rng.choice(["ConstantDiag", "Diag"])
                dsops, d = self._build_sized(kind, n1 * n2)
                ops.extend(dsops)
                a = {"base": ko, "diag": d}
            else:
                a = {"a": kron(), "b": kron()}
        elif recipe in ("Sum", "PsdSum"):
            a = {"terms": [sub(), sub()]}
        elif recipe == "Add":
            a = {"a": sub(), "b": sub()}
        elif recipe == "ConstantMul":
            a = {"base": sub(), "c": T(torch.tensor(rng.choice([0.5, 2.0, 3.5]), dtype=torch.float64), "constant", layout="contig")}
        elif recipe == "Mul":
            a = {"a": sub(["DenseLinearOperator", "RootLinearOperator"]), "b": sub(["RootLinearOperator", "DenseLinearOperator"])}
        elif recipe == "MatmulRRt":
            sops, so = self._build_plain_dense(self.randn(*(list(self.batch) + [n, n])) + 2.0 * torch.eye(n, dtype=torch.float64))
            ops.extend(sops)
            a = {"a": so}
        elif recipe in ("BlockDiag", "BlockInterleaved", "SumBatch"):
            nb = rng.choice([2, 3])
            m = max(2, min(4, n // 2 + 1))
            bops, bo = self._build_plain_dense(self.psd(m, batch=list(self.batch) + [nb]))
            ops.extend(bops)
            a = {"base": bo}
        elif recipe == "BatchRepeat":
            bops, bo = self._build_plain_dense(self.psd(n, batch=[]))
            ops.extend(bops)
            a = {"base": bo, "repeat": rng.choice([[2], [1], [2, 1]])}
        elif recipe == "Interpolated":
            m = max(2, n - 1)
            bops, bo = self._build_plain_dense(self.psd(m, batch=[]))
            ops.extend(bops)
            idx = torch.stack([torch.tensor(sorted(rng.sample(range(m), 2))) for _ in range(n)])
            val = 0.2 + torch.rand(n, 2, dtype=torch.float64, generator=self.tg)
            a = {"base": bo, "idx": T(idx, "interpolation indices", dtype="int64"), "val": T(val, "interpolation values")}
        elif recipe == "Masked":
            m = n + 2
            bops, bo = self._build_plain_dense(self.psd(m, batch=[]))
            ops.extend(bops)
            keep = sorted(rng.sample(range(m), n))
            mask = torch.zeros(m, dtype=torch.bool)
            mask[keep] = True
            t = self.tid()
            ops.append({"k": "tensor", "id": t, "dtype": "bool", "layout": "contig", "role": "mask", "data": mask.tolist()})
            a = {"base": bo, "mask": t}
        elif recipe == "Kernel":
            x = self.randn(*(list(self.batch) + [n, 2])) * 1.5
            a = {"x": T(x, "kernel inputs"), "ls": T(torch.tensor([[rng.uniform(0.3, 0.8)]], dtype=torch.float64), "lengthscale", layout="contig")}
        else:
            raise KeyError(recipe)
        oid = self.oid()
        ops.append({"k": "build", "id": oid, "recipe": recipe, "args": a})
        return ops, oid

    def _build_plain_dense(self, data):
        t, o = self.tensor_op(data, "matrix")
        oid = self.oid()
        return [o, {"k": "build", "id": oid, "recipe": "Dense", "args": {"A": t}}], oid

    def _build_sized(self, recipe, size):
        saved_n, saved_b = self.n, self.batch
        self.n = size
        try:
            w = type("W", (), {"objs": {}})()
            return self.build(w, recipe, depth=2)
        finally:
            self.n, self.batch = saved_n, saved_b

    # ------------------------------------------------------------------------------------------ derivations
    def derive(self, w):
        rng = self.rng
        cands = [o for o, r in w.objs.items() if r.square]
        if not cands:
            return None
        src = self.focus if (self.focus in cands and rng.random() < 0.7) else rng.choice(cands)
        r = w.objs[src]
        n = r.D.shape[-1]
        batch = list(r.D.shape[:-2])
        how = rng.choice(self.derives)
        ops = []
        a = {}

        def T(data, role, **kw):
            t, o = self.tensor_op(data, role, **kw)
            ops.append(o)
            return t

        if how == "add_jitter":
            a = {"val": rng.choice([1e-3, 0.1, 1.0])}
        elif how == "add_diagonal":
            kind = rng.choice(["vec", "const", "scalar"])
            if kind == "vec":
                a = {"d": T(self.posvec(n, batch), "added diagonal")}
            elif kind == "const":
                a = {"d": T(self.posvec(1, batch), "added constant diagonal", layout="contig")}
            else:
                a = {"d": T(torch.tensor(rng.uniform(0.1, 2.0), dtype=torch.float64), "added scalar diagonal", layout="contig")}
        elif how == "add_low_rank":
            if not r.psd:  # the update formula needs an invertible A
                return None
            k = rng.choice([1, 1, 2])
            a = {"B": T(self.randn(*(batch + [n, k])), "low-rank update")}
            if rng.random() < 0.3:
                a["root_decomp_method"] = rng.choice(["cholesky", "symeig", "lanczos"])
            if rng.random() < 0.3:
                a["root_inv_decomp_method"] = rng.choice(["cholesky", "symeig", "lanczos"])
            if rng.random() < 0.25:
                a["generate_roots"] = False
        elif how == "cat_rows":
            if not r.psd:
                return None
            k = rng.choice([1, 2])
            B = 0.3 * self.randn(*(batch + [k, n]))
            S = self.psd(k, batch)
            Dn = B @ torch.linalg.solve(r.D, B.mT) + S
            Dn = (Dn + Dn.mT) / 2
            a = {"cross": T(B, "cat_rows cross block"), "new": T(Dn, "cat_rows new block")}
            if rng.random() < 0.25:
                a["generate_roots"] = rng.random() < 0.5
                a["generate_inv_roots"] = rng.random() < 0.5
        elif how == "getitem":
            kind = rng.choice(["principal_slice", "principal_idx", "batch", "rect"])
            if kind == "batch" and batch:
                a = {"index": [rng.randrange(batch[0])]}
            elif kind == "principal_idx" and n > 2:
                keep = sorted(rng.sample(range(n), rng.randint(2, n - 1)))
                a = {"index": ["..."] + [["slice", None, None, None]] * 0 + [keep, keep]}
                # tensor indices on both dims select elements, not a submatrix: use slices for submatrices
                lo = rng.randrange(0, n - 1)
                hi = rng.randint(lo + 2, n) if lo + 2 <= n else n
                a = {"index": ["...", ["slice", lo, hi, None], ["slice", lo, hi, None]]}
            elif kind == "rect":
                a = {"index": ["...", ["slice", 0, max(1, n - 1), None], ["slice", None, None, None]]}
            else:
                step = rng.choice([None, None, 2])
                a = {"index": ["...", ["slice", None, None, step], ["slice", None, None, step]]}
        elif how == "mT":
            a = {}
        elif how in ("mul_scalar", "div_scalar"):
            a = {"c": rng.choice([0.5, 2.0, 3.0])}
        elif how == "add_op":
            if not r.psd:  # A + RootLinearOperator is an implicit add_low_rank, which needs an invertible A
                return None
            others = [o for o, q in w.objs.items() if q.square and q.D.shape == r.D.shape and q.psd]
            if not others:
                return None
            a = {"other": rng.choice(others)}
        elif how == "add_tensor":
            a = {"other": T(self.psd(n, batch), "added dense matrix")}
        elif how == "expand":
            a = {"shape": [2] + list(r.D.shape)} if not batch or batch[0] != 1 else {"shape": [3] + list(r.D.shape[1:])}
        elif how == "repeat":
            a = {"sizes": [2] + [1] * r.D.dim()} if rng.random() < 0.5 else {"sizes": [1] * (r.D.dim() - 2) + [1, 1]}
        elif how == "unsqueeze":
            a = {"dim": 0}
        elif how in ("clone", "detach", "to_double", "evaluate_kernel", "rebuild_repr"):
            a = {}
        oid = self.oid()
        ops.append({"k": "derive", "id": oid, "src": src, "how": how, "args": a})
        return ops

    # ------------------------------------------------------------------------------------------ queries
    def query(self, w):
        rng = self.rng
        if not w.objs:
            return None
        ids = list(w.objs)
        psd_ids = [o for o in ids if w.objs[o].psd]
        fc = getattr(self, "focus_classes", None)
        if fc and (self.focus not in w.objs or w.objs[self.focus].cls not in fc):
            pref = [o for o in psd_ids if w.objs[o].cls in fc]
            if pref:
                self.focus = rng.choice(pref)
        if self.focus not in w.objs or rng.random() < 0.08:
            self.focus = rng.choice(psd_ids or ids)
        # bias: the focus object and the operators derived from it / sharing sub-operators with it
        if rng.random() < self.p_focus:
            fam = [o for o in ids if o == self.focus or w.objs[o].spec.get("src") == self.focus]
            oid = rng.choice(fam)
        elif rng.random() < self.p_parent_after_child and len(ids) > 1:
            oid = rng.choice(ids[:-1])
        else:
            oid = rng.choice(ids[-3:]) if rng.random() < 0.6 else rng.choice(ids)
        r = w.objs[oid]
        ops = []

        def T(data, role, **kw):
            t, o = self.tensor_op(data, role, **kw)
            ops.append(o)
            return t

        p_again = 0.6 if getattr(self, "after_set", False) else self.p_same_query_again
        self.after_set = False
        if self.last_query and rng.random() < p_again and self.last_query[0] in w.objs:
            oid = self.last_query[0]
            r = w.objs[oid]
            qname = self.last_query[1]
            prev_args = self.last_query[2] if len(self.last_query) > 2 else None
            if prev_args is not None and rng.random() < 0.5 and all((not isinstance(v_, str)) or v_ in w.tensors for v_ in prev_args.values()):
                # the same request again with the same argument *structure* (same keywords, same shapes) but new tensor values:
                # exactly the situation in which a cache keyed by less than the full arguments confuses two requests
                a2 = {}
                for k_, v_ in prev_args.items():
                    if isinstance(v_, str) and v_ in w.tensors and w.tensors[v_]["view"].dtype.is_floating_point:
                        a2[k_] = T(self.randn(*w.tensors[v_]["view"].shape), w.tensors[v_]["spec"].get("role", "tensor"))
                    else:
                        a2[k_] = v_
                q = {"k": "query", "obj": oid, "q": qname, "args": a2}
                self.last_query = (oid, qname, a2)
                ops.append(q)
                return ops
        else:
            pool = [q for q in self.queries if (q in world.ANY_QUERIES or r.psd)]
            if not pool:
                pool = ["to_dense", "matmul"] if not r.square else ["to_dense", "diagonal", "matmul"]
            if not r.square:
                pool = [q for q in pool if q in ("to_dense", "matmul")] or ["to_dense"]
            qname = rng.choices(pool, weights=[self.qweight.get(q, 1) for q in pool])[0]
        if qname not in world.ANY_QUERIES and not r.psd:
            qname = "to_dense"
        if qname == "diagonal" and not r.square:
            qname = "to_dense"
        n = r.D.shape[-1]
        batch = list(r.D.shape[:-2])
        a = {}

        def rhs(cols=None, vec_ok=True):
            cols = cols if cols is not None else rng.choice([1, 2, 3])
            if vec_ok and not batch and rng.random() < 0.2:
                return T(self.randn(n), "rhs vector")
            # aliasing: an operator's own defining tensor used as right-hand side
            if self.mode == "C13" and rng.random() < 0.15:
                cand = [t for t, tr in w.tensors.items() if tr["view"].dim() >= 2 and tr["view"].shape[-2] == n and list(tr["view"].shape[:-2]) == batch
                        and tr["view"].dtype == storage.DTYPES[self.dtype]]
                if cand:
                    return rng.choice(cand)
            return T(self.randn(*(batch + [n, cols])), "rhs")

        if qname == "matmul":
            m = r.D.shape[-1]
            a = {"rhs": T(self.randn(*(batch + [m, rng.choice([1, 2])])), "rhs")}
        elif qname == "cholesky":
            a = {"upper": rng.random() < 0.5}
        elif qname == "root_decomposition":
            a = {"method": rng.choice([None, None, "cholesky", "symeig", "svd", "lanczos", "pivoted_cholesky"])}
        elif qname == "root_inv_decomposition":
            a = {"method": rng.choice([None, None, "cholesky", "symeig", "svd", "lanczos", "pinverse"])}
            if a["method"] in (None, "lanczos") and rng.random() < 0.25:
                k = rng.choice([1, 2])
                a["initial_vectors"] = T(self.randn(*(batch + [n, k])), "lanczos initial vectors")
                if rng.random() < 0.7:
                    a["test_vectors"] = T(self.randn(*(batch + [n, 3])), "lanczos test vectors")
        elif qname == "diagonalization":
            a = {"method": rng.choice([None, None, "symeig", "lanczos"])}
        elif qname == "solve":
            a = {"rhs": rhs()}
            if rng.random() < 0.25:
                a["lhs"] = T(self.randn(*(batch + [2, n])), "lhs")
        elif qname == "inv_quad":
            a = {"rhs": rhs(vec_ok=False), "reduce": rng.random() < 0.6}
        elif qname == "inv_quad_logdet":
            a = {"logdet": rng.random() < 0.8, "reduce": rng.random() < 0.6}
            if rng.random() < 0.7 or not a["logdet"]:
                a["rhs"] = rhs(vec_ok=False)
        elif qname == "pivoted_cholesky":
            a = {"rank": rng.choice([2, n, n, n + 3])}
        elif qname == "sqrt_inv_matmul":
            a = {"rhs": rhs(vec_ok=False)}
            if rng.random() < 0.3:
                a["lhs"] = T(self.randn(*(batch + [2, n])), "lhs")
        a = {k: v for k, v in a.items() if v is not None}
        q = {"k": "query", "obj": oid, "q": qname, "args": a}
        if self.fault_kinds and self.faults_left > 0 and rng.random() < self.fault_rate:
            kind = rng.choice(self.fault_kinds)
            if kind == "cb" and r.cb is None and not any(o.cb is not None and _shares(w, o, r) for o in w.objs.values()):
                kind = rng.choice([k for k in self.fault_kinds if k != "cb"] or ["crash"])
            f = {"kind": kind, "u": round(rng.random(), 4)}
            if kind == "chol_info":
                f["attempts"] = rng.choice([1, 1, 2, 4, 8, 8])  # 8 >= max_tries + 1: every retry fails, NotPSDError reaches the caller
            if kind == "linalg_err":
                f["fn"] = rng.choice(["eigh", "eigh", "svd", "qr", "eigvalsh"])
            if kind == "crash":
                f["v"] = round(rng.random(), 4)
            q["fault"] = f
            self.faults_left -= 1
        self.last_query = (oid, qname, a)
        ops.append(q)
        return ops

    def set_op(self):
        """Settings flips are biased towards oscillation (A -> B -> A on the same setting), because caches that are keyed or
        selected by a setting are only exercised when a value comes back."""
        rng = self.rng
        hist = getattr(self, "_set_hist", None)
        if hist is None:
            hist = self._set_hist = {}
        last = getattr(self, "_last_set", None)
        if last is not None and rng.random() < 0.5:
            name = last
        else:
            name = rng.choice(self.flippable)
        dom = self.setting_domain(name)
        prev = hist.get(name, [])
        if len(prev) >= 2 and rng.random() < 0.6:
            value = prev[-2]  # go back to the value before the last flip
        else:
            cands = [v for v in dom if not prev or v != prev[-1]] or dom
            value = rng.choice(cands)
        hist.setdefault(name, []).append(value)
        self._last_set = name
        self.after_set = True
        return [{"k": "set", "name": name, "value": value}]

    # ------------------------------------------------------------------------------------------ main
    def next_ops(self, w, step):
        rng = self.rng
        if not w.objs:
            ops, _ = self.build(w)
            return ops
        r = rng.random()
        nobj = len(w.objs)
        if r < 0.12 and nobj < 6:
            ops, _ = self.build(w)
            return ops
        if r < 0.30 and nobj < 8:
            d = self.derive(w)
            if d:
                return d
        if r < 0.42 and self.flip_settings:
            return self.set_op()
        if self.mode == "C13" and r < 0.62:
            from sim import utilops

            u = utilops.gen_util(self, w)
            if u:
                return u
        return self.query(w) or []


def _shares(w, a, b):
    ia = {id(o) for _, o in world.sub_operators(a.op)}
    ib = {id(o) for _, o in world.sub_operators(b.op)}
    return bool(ia & ib)
