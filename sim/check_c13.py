"""C13 — no operation mutates caller-owned tensors or an existing operator's matrix (see histsim.py)."""
from sim import histcheck

PROP = "C13"
ASSUMPTIONS = [
    "observable = _version, the whole underlying storage (bitwise), shape/stride/offset/dtype/requires_grad of every tensor the harness passed in "
    "or the library returned; and to_dense() (read through its cache) of every pre-existing operator",
    "a version bump with identical bytes is reported (the property names the version counter as its observable)",
    "explicit out= buffers and the explicitly in-place methods detach_ / requires_grad_ (metadata only) are exempt",
]
SELFCHECK_EVERY = {"quick": 8, "thorough": 32}

globals().update(histcheck.make_interface(PROP))
