"""Engine interface shared by the two history-simulation checks (C12, C13)."""
from __future__ import annotations

import json

from sim import gen as G
from sim import histsim, seams, world
from sim.engine import sub_seed


def make_interface(prop):
    mode = prop

    def warmup():
        # one full run so that lazy first-call initialisation (scipy import in CIQ, jit script first calls,
        # sys.monitoring tool registration) happens before any counted run
        for s in (1, 2, 3):
            try:
                generate_run(sub_seed(12345, "warmup", s), "quick")
            except Exception:
                pass
        seams.CRASH._ensure()
        world.restore_pristine()

    def generate_run(seed, tier):
        g = G.Gen(sub_seed(seed, "gen"), mode, tier)
        scen = {"run_seed": seed, "dtype": g.dtype, "ops": []}
        w = histsim.World(scen, mode)
        w.begin()
        try:
            def push(o):
                scen["ops"].append(o)
                w.step = len(scen["ops"]) - 1
                w.apply(w.step, o)

            for o in g.initial_sets:
                push(o)
            steps = 0
            while steps < g.steps and not w.violations:
                ops = g.next_ops(w, steps)
                steps += 1
                for o in ops:
                    if w.violations:
                        break
                    push(o)
        except BaseException:
            w._wctx.__exit__(None, None, None)
            world.restore_pristine()
            raise
        res = w.finish()
        res["swarm"] = {"recipes": g.recipes, "derives": g.derives, "fault_kinds": g.fault_kinds, "n": g.n, "batch": g.batch, "dtype": g.dtype}
        return scen, res

    def replay(scen):
        return histsim.World(scen, mode).run()

    def scenario_len(scen):
        return len(scen["ops"])

    def minimise(scen, sig):
        def still(ops, extra=None):
            s = dict(scen, ops=ops)
            if extra:
                s.update(extra)
            try:
                r = replay(s)
            except Exception:
                return False
            return bool(r["violations"]) and r["violations"][0]["sig"] == sig

        ops = list(scen["ops"])
        # cut everything after the failing step
        r0 = replay(dict(scen, ops=ops))
        if r0["violations"]:
            ops = ops[: r0["violations"][0]["step"] + 1]
        # ddmin
        n = 2
        while len(ops) >= 2:
            chunk = max(1, len(ops) // n)
            reduced = False
            for start in range(0, len(ops), chunk):
                cand = ops[:start] + ops[start + chunk:]
                if cand and still(cand):
                    ops = cand
                    n = max(n - 1, 2)
                    reduced = True
                    break
            if not reduced:
                if chunk == 1:
                    break
                n = min(len(ops), n * 2)
        # single-op removal to a fixpoint (1-minimal)
        changed = True
        while changed:
            changed = False
            for i in range(len(ops) - 1, -1, -1):
                cand = ops[:i] + ops[i + 1:]
                if cand and still(cand):
                    ops = cand
                    changed = True
        # simplification passes: drop faults, plain layouts, drop optional args
        for i, o in enumerate(ops):
            if o.get("fault"):
                cand = [dict(x) for x in ops]
                cand[i] = {k: v for k, v in o.items() if k != "fault"}
                if still(cand):
                    ops = cand
        for i, o in enumerate(ops):
            if o["k"] == "tensor" and o.get("layout") != "contig":
                cand = [dict(x) for x in ops]
                cand[i] = dict(o, layout="contig")
                if still(cand):
                    ops = cand
        out = dict(scen, ops=ops)
        return out, replay(out)

    def attribute(mscen, violation):
        """Knockout attribution: which single cache entries, deleted right before one of the steps that reference
        the object holding them, make the violation disappear?  Also: was the culprit entry itself an accurate
        factorization of its operator (exact) or an approximation (approximate)?"""
        import re

        r = replay(dict(mscen, measure_entries=True))
        if not r["violations"]:
            return {}
        step = r["violations"][0]["step"]
        sig = r["violations"][0]["sig"]
        rows = [row for j, rs in sorted(r.get("entries_by_step", {}).items(), key=lambda kv: int(kv[0])) if int(j) <= step for row in rs]
        # the failing step's own entries first, then the nearest earlier steps (the cap must not cut off the entries that matter)
        rows.sort(key=lambda row: -int(row["step"]))
        culprits = []
        tried = 0
        for row in rows:
            if tried >= 120:
                break
            tried += 1
            s = dict(mscen, knockout={"step": row["step"], "obj": row["obj"], "path": row["path"], "name": row["name"]})
            try:
                r2 = replay(s)
            except Exception:
                continue
            if not (r2["violations"] and r2["violations"][0]["sig"] == sig):
                culprits.append(row)
        if not culprits:
            # no single entry explains it: several entries may steer the same decision (e.g. a cached diagonalization and the
            # root computed from it) - knock out everything the failing object holds at the failing step
            grp = [row for row in rows if row["step"] == step]
            if grp:
                s = dict(mscen, knockout={"step": step, "group": [{"obj": g_["obj"], "path": g_["path"], "name": g_["name"]} for g_ in grp]})
                try:
                    r2 = replay(s)
                    if not (r2["violations"] and r2["violations"][0]["sig"] == sig):
                        culprits = [g_ for g_ in grp if g_["err"] is not None] or grp
                except Exception:
                    pass

        if not culprits:
            # still nothing: an entry that *replaced* a good one cannot be isolated by deleting it (the object recomputes an equally
            # inexact one).  The minimised history kept the step that wrote it, so an entry the failing object holds at the failing
            # step and that was left behind by a query which is just as inexact (or raises) on a fresh copy is named instead
            obj_ = r["violations"][0].get("obj")
            culprits = [row for row in rows if row["step"] == step and row.get("direct_inexact") and row["path"] == "."
                        and row["writer"].startswith("query:") and (obj_ is None or row["obj"] == obj_)]

        def classify(errs):
            """none | exact | approximate (inexact, but exact on its own column space: truncated / deflated Lanczos) | wrong"""
            errs = [e for e in errs if e is not None]
            if not errs:
                return "none"
            if any(e[0] > 1e-4 and e[1] > 5e-3 for e in errs):
                return "wrong"
            if any(e[0] > 1e-4 for e in errs):
                return "approximate"
            return "exact"

        acc = classify([c["err"] for c in culprits]) if culprits else "none"
        if culprits and acc == "none":
            acc = "exact"
        pr = r.get("parent_roots_after_derive", {}).get(step) or r.get("parent_roots_after_derive", {}).get(str(step)) or []
        parent_acc = "n/a" if not sig[1].startswith("O2-") else classify([x["err"] for x in pr])
        involved = "wrong-factor" if "wrong" in (acc, parent_acc) else ("yes" if "approximate" in (acc, parent_acc) else "no")
        reader = sig[3].split("[")[0]
        if sig[1].startswith("O2-"):
            reader = sig[2].split(".")[-1] + ">" + reader  # e.g. cat_rows>root_decomposition
        elif sig[1].startswith("derive"):
            reader = "derive:" + sig[3]
        reader_q = sig[3].split("[")[0]

        def _pair_name(cname):
            # a culprit entry stored under an explicit (non-default) argument key and read by a *different* query is marked
            # "[k]": on the unchanged tree other queries only ever look at argument-less keys (c12-s18: sampling with whatever
            # root_decomposition(method=...) entry happens to exist)
            base = cname.split("(")[0]
            argstr = cname[len(base) + 1:-1] if "(" in cname and cname.endswith(")") else ""
            items = [a_ for a_ in argstr.split(",") if a_ and not a_.endswith("=None")]
            # only plain queries: a derivation that is given a method argument (add_low_rank(root_decomp_method=...), cat_rows(method=...))
            # requests exactly that keyed entry itself
            return base + ("[k]" if items and base != reader_q and not base.startswith("@") and reader == reader_q else "")

        pairs = sorted({f"{reader}<-{_pair_name(c['name'])}" for c in culprits}) or [f"{reader}<-none"]
        return {"culprits": sorted({f"{c['obj']}{c['path']}:{c['name']}" for c in culprits}),
                "reader_pairs": pairs,
                "classes_in_scenario": r.get("classes", []),
                "parent_root_accuracy": parent_acc,
                "parent_root_errors": [x["err"] for x in pr],
                "approximate_factor_involved": involved,
                "culprits_written_by_queries_inexact_on_fresh_copy_too": "yes" if (culprits and any(c.get("direct_inexact") for c in culprits)) else "no",
                "culprit_names": sorted({c["name"].split("(")[0] for c in culprits}),
                "culprit_writers": sorted({c["writer"] for c in culprits}),
                "culprit_entry_errors_full_and_projected": [c["err"] for c in culprits],
                "culprit_accuracy": acc,
                "entries_present_at_failing_step": [f"{row['obj']}{row['path']}:{row['name']}" for row in rows if row["step"] == step],
                "requires_fault": any(o.get("fault") for o in mscen["ops"])}

    def new_aggregate():
        return {"runs": 0, "stats": {}, "fp": {}, "nt": {}, "c13": {}, "c13nt": {}, "samples": [], "selfchecked": 0, "c13_seen": 0, "steps": 0}

    def aggregate(agg, scen, res):
        agg["runs"] += 1
        agg["steps"] += len(scen["ops"])
        for k, v in res["stats"].items():
            agg["stats"][k] = agg["stats"].get(k, 0) + v
        for h in res["fingerprints"]:
            agg["fp"][h] = 1
        for h in res["nontrivial"]:
            agg["nt"][h] = 1
        for h in res["cases13"]:
            agg["c13"][h] = 1
        for h in res["nontrivial13"]:
            agg["c13nt"][h] = 1
        agg["c13_seen"] += res.get("c13_seen", 0)
        if len(agg["samples"]) < 3 and len(res["trace"]) >= 5 and (res["nontrivial"] if mode == "C12" else res["nontrivial13"]):
            agg["samples"].append({"run_seed": scen["run_seed"], "swarm": res.get("swarm"), "history": res["trace"][:30]})

    def finish_aggregate(agg):
        return agg

    def merge_aggregate(total, agg):
        total["runs"] += agg["runs"]
        total["steps"] += agg["steps"]
        total["selfchecked"] = total.get("selfchecked", 0) + agg.get("selfchecked", 0)
        total["c13_seen"] += agg["c13_seen"]
        for k, v in agg["stats"].items():
            total["stats"][k] = total["stats"].get(k, 0) + v
        for key in ("fp", "nt", "c13", "c13nt"):
            total[key].update(agg[key])
        total["samples"] = sorted(total["samples"] + agg["samples"], key=lambda s_: s_["run_seed"])[:3]

    def evidence(total, tier):
        st = total["stats"]
        faults = {}
        for kind in G.FAULT_KINDS:
            faults[{"cb": "F1_cb_exc", "chol_info": "F2a_chol_info", "linalg_err": "F2b_linalg_err", "crash": "F3_crash"}[kind]] = {
                "armed": st.get(f"fault_{kind}_armed", 0), "fired": st.get(f"fault_{kind}_fired", 0)}
        common = {
            "samples": total["samples"],
            "steps_executed": total["steps"],
            "fault_kinds": faults,
            "reach_probes": {k: v for k, v in sorted(st.items()) if k.startswith(("path_", "derive_", "q_", "cls_", "layout_", "util_", "reach_"))},
            "counters": {k: v for k, v in sorted(st.items()) if not k.startswith(("path_", "derive_", "q_", "cls_", "layout_", "util_", "fault_", "reach_"))},
            "generate_vs_replay_digest_selfchecks": total.get("selfchecked", 0),
            "components": {
                "real": ["all of linear_operator (operators, functions, utils, settings)", "all torch kernels"],
                "stub": ["torch.randn source (seeded private generator; basis-vector probe mode at sampler call sites)",
                         "info override of torch.linalg.cholesky_ex (only while F2a is armed)",
                         "LinAlgError raisers around torch.linalg.eigh/eigvalsh/svd/qr (only while F2b is armed)",
                         "user-subclass _matmul and kernel covar_func callbacks (F1)", "sys.monitoring LINE callback (F3)"],
            },
        }
        if mode == "C12":
            common.update({
                "distinct_nontrivial": len(total["nt"]),
                "rule": "state fingerprint of a query step = (operator class, sorted cache-entry names present on the object and its sub-operators "
                        "incl. ad-hoc cache attributes, query kind + method/upper argument, non-default settings vector); a step is non-trivial "
                        "iff the object or a sub-operator holds at least one cache entry written by a different op than the current one, or an "
                        "earlier op on it (or on an operator sharing a sub-operator) had a fault fire; distinct = distinct fingerprints",
                "distinct_fingerprints_total": len(total["fp"]),
                "comparisons": st.get("comparisons", 0),
                "comparisons_nontrivial": st.get("comparisons_nontrivial", 0),
                "comparisons_vacuous": st.get("vacuous", 0),
                "direct_comparisons_O6": st.get("direct_comparisons", 0),
                "c13_breaches_observed_not_judged_here": total["c13_seen"],
            })
        else:
            common.update({
                "distinct_nontrivial": len(total["c13nt"]),
                "rule": "case = (function or method, operator class, argument position, layout of that argument, algorithm path seen by the "
                        "verbose_linalg reach probes, fault fired or not); non-trivial iff the step received at least one caller tensor; "
                        "distinct = distinct case tuples",
                "distinct_cases_total": len(total["c13"]),
            })
        return common

    def summary_lines(total):
        st = total["stats"]
        out = [f"steps={total['steps']} queries={st.get('queries', 0)} creates={st.get('creates', 0)} comparisons={st.get('comparisons', 0)} "
               f"nontrivial_cmp={st.get('comparisons_nontrivial', 0)} vacuous={st.get('vacuous', 0)} direct={st.get('direct_comparisons', 0)} both_raise={st.get('both_raise', 0)} "
               f"fresh_raises_hist_ok={st.get('fresh_raises_hist_ok', 0)} fingerprints={len(total['fp'])} nontrivial_fp={len(total['nt'])} "
               f"c13cases={len(total['c13'])}/{len(total['c13nt'])}",
               "faults: " + " ".join(f"{k}={st.get(f'fault_{k}_fired', 0)}/{st.get(f'fault_{k}_armed', 0)}" for k in G.FAULT_KINDS),
               "paths: " + " ".join(f"{k[5:]}={v}" for k, v in sorted(st.items()) if k.startswith("path_"))]
        return out

    return dict(warmup=warmup, generate_run=generate_run, replay=replay, scenario_len=scenario_len, minimise=minimise, attribute=attribute,
                new_aggregate=new_aggregate, aggregate=aggregate, finish_aggregate=finish_aggregate, merge_aggregate=merge_aggregate,
                evidence=evidence, summary_lines=summary_lines)
