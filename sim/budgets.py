"""Count-based budgets (the set of runs is a function of VERIF_SEED); soft_s truncates the set (reported),
hard_s is the wall-clock cap (exit 3)."""
BUDGETS = {
    "C17": {"quick": {"runs": 6000, "soft_s": 90, "hard_s": 600}, "thorough": {"runs": 200000, "soft_s": 900, "hard_s": 2400}},
    "C16": {"quick": {"runs": 4000, "soft_s": 90, "hard_s": 600}, "thorough": {"runs": 100000, "soft_s": 900, "hard_s": 2400}},
    "C12": {"quick": {"runs": 16000, "soft_s": 120, "hard_s": 900}, "thorough": {"runs": 60000, "soft_s": 1200, "hard_s": 3000}},
    "C13": {"quick": {"runs": 16000, "soft_s": 120, "hard_s": 900}, "thorough": {"runs": 60000, "soft_s": 1200, "hard_s": 3000}},
}
