"""Count-based budgets (the set of runs is a function of VERIF_SEED); soft_s truncates the set (reported),
hard_s is the wall-clock cap (exit 3)."""
BUDGETS = {
    "C17": {"quick": {"runs": 30000, "soft_s": 120, "hard_s": 900}, "thorough": {"runs": 400000, "soft_s": 1500, "hard_s": 3000}},
    "C16": {"quick": {"runs": 24000, "soft_s": 120, "hard_s": 900}, "thorough": {"runs": 300000, "soft_s": 1500, "hard_s": 3000}},
    "C12": {"quick": {"runs": 24000, "soft_s": 240, "hard_s": 1200}, "thorough": {"runs": 200000, "soft_s": 2400, "hard_s": 4000}},
    "C13": {"quick": {"runs": 24000, "soft_s": 240, "hard_s": 1200}, "thorough": {"runs": 200000, "soft_s": 2400, "hard_s": 4000}},
}
