"""simcheck command line."""
import os
import sys


def main(argv):
    from sim import engine

    if not argv:
        print(__doc__)
        return 2
    cmd = argv[0]
    if cmd == "_worker":
        engine.worker_main(argv[1:])
        return 0
    if cmd == "setup":
        engine.setup_process()
        import compileall

        import linear_operator
        import torch

        print(f"setup ok: torch {torch.__version__}, linear_operator from {linear_operator.__file__}, python {sys.version.split()[0]}")
        return 0
    if cmd == "replay":
        return engine.replay_main(argv[1:])
    if cmd == "selftest-determinism":
        from sim import selftest

        return selftest.determinism(argv[1:])
    if cmd == "selftest-mutants":
        from sim import selftest

        return selftest.mutants(argv[1:])
    if cmd in ("C12", "C13", "C16", "C17"):
        tier = os.environ.get("VERIF_TIER", "quick")
        runs = None
        i = 1
        while i < len(argv):
            if argv[i] == "--tier":
                tier = argv[i + 1]
                i += 2
            elif argv[i] == "--runs":
                runs = int(argv[i + 1])
                i += 2
            else:
                print(f"unknown argument {argv[i]}")
                return 2
        if tier not in ("quick", "thorough"):
            print(f"unknown tier {tier}")
            return 2
        try:
            return engine.check_main(cmd, tier, runs)
        except Exception:
            import traceback

            traceback.print_exc()
            print("HARNESS-ERROR: exception in check driver", flush=True)
            return 2
    print(f"unknown command {cmd}")
    return 2
