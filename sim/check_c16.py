"""C16 — psd_safe_cholesky perturbs minimally, per batch member, or fails loudly.

The retry loop around the fallible kernel torch.linalg.cholesky_ex is simulated under *failure schedules*:
member m of the batch reports failure on its first t_m attempts (F2a, fake kernel = real kernel + info
override + NaN poisoning of the failed slices), combined with naturally failing matrices (eigenvalue placed
between jitter levels, singular, indefinite, NaN).  Reference model: i_m = first attempt at which member m
succeeds = max(t_m, natural i_m from the spectrum); expected factor = factor of A_m + jitter*10^(i_m-1) I
for members with i_m >= 1, of A_m untouched otherwise; NotPSDError iff some i_m > max_tries; NanError iff A
has a NaN (and the first attempt failed somewhere); no NaN/Inf returned; upper honoured; A untouched.
"""
from __future__ import annotations

import hashlib
import itertools
import json
import random
import warnings

import torch

from linear_operator import settings as S
from linear_operator.operators import DenseLinearOperator, to_linear_operator
from linear_operator.utils import cholesky as chol_mod
from linear_operator.utils.errors import NanError, NotPSDError
from linear_operator.utils.warnings import NumericalWarning
from sim import storage
from sim.engine import EventLog, sub_seed, tensor_sha

ASSUMPTIONS = [
    "matrices are exactly symmetric; NaNs are placed symmetrically (a NaN only in the strict upper triangle is never read by the kernel)",
    "an attempt whose success is numerically borderline (|lambda_min + jitter| within 200*n*eps*||A||) makes the case 'borderline': only the weak oracles (no NaN/Inf returned, input untouched, loud failure types) are applied",
    "the jitter actually applied is compared with relative tolerance 1e-5 (the library rounds increments through float32) plus the Cholesky backward-error bound",
    "at least one NumericalWarning is required when jitter was added, none otherwise; the number of warnings is recorded, not judged",
]
SELFCHECK_EVERY = {"quick": 4, "thorough": 16}
REAL_CHOLESKY_EX = torch.linalg.cholesky_ex
_IMPORT = {"jf": S.cholesky_jitter._global_float_value, "jd": S.cholesky_jitter._global_double_value,
           "jh": S.cholesky_jitter._global_half_value, "mt": S.cholesky_max_tries._global_value}


def restore_pristine():
    S.cholesky_jitter._global_float_value = _IMPORT["jf"]
    S.cholesky_jitter._global_double_value = _IMPORT["jd"]
    S.cholesky_jitter._global_half_value = _IMPORT["jh"]
    S.cholesky_max_tries._global_value = _IMPORT["mt"]
    torch.linalg.cholesky_ex = REAL_CHOLESKY_EX


# ----------------------------------------------------------------------------------------------------
# F2a seam


class FakeCholeskyEx:
    """Runs the real kernel, then makes member m report failure on its first t_m attempts (info=1, slice
    poisoned with NaN).  A real failure is never masked."""

    def __init__(self, schedule_flat, batch_shape):
        self.t = torch.tensor(schedule_flat, dtype=torch.int64).reshape(batch_shape) if batch_shape else torch.tensor(schedule_flat[0])
        self.attempt = 0
        self.fired = 0
        self.calls = 0

    def __call__(self, A, *, upper=False, check_errors=False, out=None):
        L, info = REAL_CHOLESKY_EX(A, upper=upper, check_errors=check_errors, out=out)
        self.calls += 1
        if tuple(A.shape[:-2]) == tuple(self.t.shape):
            fail = self.t > self.attempt
            self.attempt += 1
            if bool(fail.any()):
                self.fired += int(fail.sum())
                info = torch.where(fail & (info == 0), torch.ones_like(info), info) if out is None else info.masked_fill_(fail & (info == 0), 1)
                if out is None:
                    L = L.clone()
                L[fail] = float("nan")
        return L, info


# ----------------------------------------------------------------------------------------------------
# generation


def _sym_from_spectrum(rng_t, lam):
    n = len(lam)
    X = torch.randn(n, n, dtype=torch.float64, generator=rng_t)
    Q, _ = torch.linalg.qr(X)
    A = Q @ torch.diag(torch.tensor(lam, dtype=torch.float64)) @ Q.T
    return (A + A.T) / 2


def gen_scenario(seed, tier):
    rng = random.Random(seed)
    g = torch.Generator().manual_seed(seed & 0x7FFFFFFF)
    dtype = "float64" if rng.random() < 0.6 else "float32"
    n = rng.randint(2, 6)
    batch = rng.choice([[], [], [1], [2], [3], [2, 1], [2, 2], [3, 2], [4], [6]])
    nmem = 1
    for b in batch:
        nmem *= b
    mode = rng.choice(["injected", "injected", "natural", "mixed"])
    scale = rng.choice([1.0, 1.0, 1.0, 1e2, 1e-2]) if dtype == "float64" else 1.0
    jit_levels = [1e-8, 1e-6, 1e-4, 1e-3, 1e-2] if dtype == "float64" else [1e-3, 1e-2]
    jitter = rng.choice(jit_levels) * scale
    max_tries = rng.randint(1, 5)
    layout = rng.choice(storage.LAYOUTS)
    members = []
    kinds = []
    identical = layout == "expanded" and nmem > 1
    for m in range(nmem):
        if identical and m > 0:
            members.append(members[0].clone())
            kinds.append(kinds[0])
            continue
        kind = "pd"
        if mode in ("natural", "mixed"):
            kind = rng.choice(["pd", "pd", "between", "between", "singular", "indefinite", "nan"] if not identical else
                              ["pd", "between", "singular", "indefinite"])
        lam = sorted(rng.uniform(0.5, 4.0) for _ in range(n))
        if kind == "between":
            lvl = rng.randint(0, max_tries)  # needs jitter*10^lvl  (lvl == max_tries -> hopeless)
            c = jitter * (10 ** (lvl - 1)) * 3.16
            lam[0] = -c
        elif kind == "singular":
            lam[0] = 0.0
        elif kind == "indefinite":
            lam[0] = -rng.uniform(0.5, 2.0)
        A = _sym_from_spectrum(g, lam) * scale
        if kind == "singular":
            # exactly rank deficient in the working dtype: B B^T with B n x (n-1)
            B = torch.randn(n, n - 1, dtype=torch.float64, generator=g)
            A = (B @ B.T) * scale
            A = (A + A.T) / 2
        if kind == "nan":
            i, j = rng.randrange(n), rng.randrange(n)
            A[i, j] = float("nan")
            A[j, i] = float("nan")
        members.append(A)
        kinds.append(kind)
    A = torch.stack(members).reshape(batch + [n, n]) if batch else members[0]
    A = A.to(storage.DTYPES[dtype])
    # exact symmetry survives the cast (elementwise rounding)
    calls = []
    sweep = mode == "injected" and nmem <= 3 and max_tries <= 3 and rng.random() < 0.35
    if sweep:
        for sched in itertools.product(range(max_tries + 2), repeat=nmem):
            calls.append(_gen_call(rng, dtype, jitter, max_tries, list(sched), n, fixed=True))
    else:
        for _ in range(rng.randint(2, 8)):
            sched = None
            if mode in ("injected", "mixed") and rng.random() < 0.85:
                sched = []
                hi = max_tries + 1
                for m in range(nmem):
                    r = rng.random()
                    sched.append(0 if r < 0.35 else (hi if r > 0.93 else rng.randint(1, max_tries)))
            calls.append(_gen_call(rng, dtype, jitter, max_tries, sched, n, fixed=False))
    return {"run_seed": seed, "dtype": dtype, "n": n, "batch": batch, "layout": layout, "mode": mode, "kinds": kinds,
            "A": storage.tolist_exact(A), "calls": calls, "sweep": sweep}


def _gen_call(rng, dtype, jitter, max_tries, sched, n, fixed):
    entry = "direct" if fixed or rng.random() < 0.6 else rng.choice(["dense_op", "to_linear_operator", "direct_out"])
    if n < 2 and entry != "direct":
        entry = "direct"
    other = jitter * 17.0  # the *other* dtype's slot, must never be used
    if entry in ("dense_op", "to_linear_operator"):
        jsrc = rng.choice(["settings", "settings", "default"])
        msrc = rng.choice(["settings", "default"])
    else:
        jsrc = rng.choice(["arg", "settings", "default"]) if not fixed else "arg"
        msrc = rng.choice(["arg", "settings", "default"]) if not fixed else "arg"
    call = {"entry": entry, "upper": (rng.random() < 0.4) and entry != "to_linear_operator", "jsrc": jsrc, "msrc": msrc,
            "jitter": jitter, "other_jitter": other, "max_tries": max_tries, "schedule": sched}
    return call


# ----------------------------------------------------------------------------------------------------
# reference model


def model_call(scen, A, call):
    """Reference model.  Returns per member the set P_m of attempts at which the member may first succeed
    (a singleton unless an attempt is numerically borderline); NEVER = max_tries + 1."""
    dt = A.dtype
    eps = torch.finfo(dt).eps
    n = A.shape[-1]
    Af = A.reshape(-1, n, n)
    nmem = Af.shape[0]
    if call["jsrc"] == "default":
        jitter = _IMPORT["jd"] if dt == torch.float64 else _IMPORT["jf"]
    else:
        jitter = call["jitter"]
    max_tries = _IMPORT["mt"] if call["msrc"] == "default" else call["max_tries"]
    never = max_tries + 1
    sched = call["schedule"] or [0] * nmem
    has_nan = bool(torch.isnan(A).any())
    P = []
    for m in range(nmem):
        Am = Af[m].double()
        if torch.isnan(Am).any():
            P.append([never])
            continue
        lam_min = float(torch.linalg.eigvalsh(Am)[0])
        norm = float(Am.abs().max())
        poss = []
        definite = False
        for k in range(0, max_tries + 1):
            c = 0.0 if k == 0 else jitter * 10 ** (k - 1)
            v = lam_min + c
            mk = 200 * n * eps * max(norm, c, 1e-300)
            if v > mk:
                poss.append(k)
                definite = True
                break
            if v >= -mk:
                poss.append(k)
        if not definite:
            poss.append(never)
        P.append(sorted({min(never, max(k, sched[m])) for k in poss}))
    return {"jitter": jitter, "max_tries": max_tries, "P": P, "never": never, "has_nan": has_nan,
            "borderline": any(len(p) > 1 for p in P)}


# ----------------------------------------------------------------------------------------------------
# execution


class Exec:
    def __init__(self, scen):
        self.scen = scen
        self.log = EventLog(scen.get("run_seed"))
        self.violations = []
        self.trace = []
        self.stats = {"calls": 0, "injected_calls": 0, "info_overrides_fired": 0, "retries": 0, "notpsd": 0, "nanerr": 0,
                      "borderline_calls": 0, "exact_calls": 0, "jittered_calls": 0, "members_jittered": 0, "members_untouched_in_jittered_call": 0,
                      "warnings_equal_retries": 0, "warnings_differ_retries": 0, "sweeps": 0}
        self.cases = set()
        self.nontrivial = set()

    def violate(self, kind, call, detail):
        if not self.violations:
            self.violations.append({"sig": ["C16", kind, call["entry"], "injected" if call["schedule"] else "natural"], "detail": detail})

    def run(self):
        scen = self.scen
        restore_pristine()
        data = storage.fromlist(scen["A"], scen["dtype"])
        A, base = storage.make_layout(data, scen["layout"])
        snap = storage.Snap(base, keep_raw=True)
        asnap = storage.Snap(A)
        self.log.add("A", scen["dtype"], scen["layout"], list(A.shape), tensor_sha(A))
        if scen.get("sweep"):
            self.stats["sweeps"] += 1
        for ci, call in enumerate(scen["calls"]):
            try:
                self.one_call(ci, call, A, data)
            finally:
                restore_pristine()
            d = snap.diff(base) + asnap.diff(A)
            if d:
                self.violate("input-mutated", call, f"call #{ci}: A ({scen['layout']}) modified: {'; '.join(d)}")
            if self.violations:
                break
        return {"digest": self.log.digest(), "violations": self.violations, "trace": self.trace, "stats": self.stats,
                "cases": sorted(self.cases), "nontrivial": sorted(self.nontrivial)}

    def one_call(self, ci, call, A, data):
        scen = self.scen
        self.stats["calls"] += 1
        exp = model_call(scen, data, call)
        dt = A.dtype
        n = A.shape[-1]
        kwargs = {}
        ctxs = []
        if call["jsrc"] == "arg":
            kwargs["jitter"] = call["jitter"]
        elif call["jsrc"] == "settings":
            if dt == torch.float64:
                ctxs.append(S.cholesky_jitter(float_value=call["other_jitter"], double_value=call["jitter"]))
            else:
                ctxs.append(S.cholesky_jitter(float_value=call["jitter"], double_value=call["other_jitter"]))
        if call["msrc"] == "arg":
            kwargs["max_tries"] = call["max_tries"]
        elif call["msrc"] == "settings":
            ctxs.append(S.cholesky_max_tries(call["max_tries"]))
        fake = None
        if call["schedule"]:
            fake = FakeCholeskyEx(call["schedule"], tuple(scen["batch"]))
            self.stats["injected_calls"] += 1
        outbuf = None
        res = None
        exc = None
        with warnings.catch_warnings(record=True) as wlist:
            warnings.simplefilter("always")
            try:
                for c in ctxs:
                    c.__enter__()
                if fake is not None:
                    torch.linalg.cholesky_ex = fake
                try:
                    if call["entry"] == "direct":
                        res = chol_mod.psd_safe_cholesky(A, upper=call["upper"], **kwargs)
                    elif call["entry"] == "direct_out":
                        outbuf = torch.empty(A.shape, dtype=dt)
                        res = chol_mod.psd_safe_cholesky(A, upper=call["upper"], out=outbuf, **kwargs)
                    elif call["entry"] == "dense_op":
                        res = DenseLinearOperator(A).cholesky(upper=call["upper"]).to_dense()
                    else:
                        res = to_linear_operator(A).cholesky().to_dense()
                except Exception as e:  # outcome, judged below
                    exc = e
            finally:
                torch.linalg.cholesky_ex = REAL_CHOLESKY_EX
                for c in reversed(ctxs):
                    c.__exit__(None, None, None)
        nwarn = sum(1 for w in wlist if issubclass(w.category, NumericalWarning))
        if fake is not None:
            self.stats["info_overrides_fired"] += fake.fired
        outcome = type(exc).__name__ if exc is not None else "ok"
        P, never = exp["P"], exp["never"]
        may_fail = any(never in p for p in P)
        must_fail = any(p == [never] for p in P)
        may_exact = all(0 in p for p in P)
        must_exact = all(p == [0] for p in P)
        self.log.add("call", ci, call, outcome, nwarn, tensor_sha(res) if res is not None else None)
        self.trace.append(f"call#{ci} entry={call['entry']} upper={call['upper']} jitter={exp['jitter']:g}({call['jsrc']}) max_tries={exp['max_tries']}"
                          f"({call['msrc']}) schedule={call['schedule']} -> {outcome}, {nwarn} warnings; model: first success per member {P}"
                          f" (never={never})" + (" [borderline]" if exp["borderline"] else ""))
        case = (tuple(scen["batch"]), scen["dtype"], scen["layout"], call["upper"], exp["max_tries"], call["jsrc"], call["msrc"],
                tuple(call["schedule"]) if call["schedule"] else tuple(scen["kinds"]), call["entry"])
        ck = hashlib.blake2b(json.dumps(case, default=str).encode(), digest_size=8).hexdigest()
        self.cases.add(ck)
        if not must_exact:
            self.nontrivial.add(ck)
        if exp["borderline"]:
            self.stats["borderline_calls"] += 1

        if exc is not None and not isinstance(exc, (NanError, NotPSDError)):
            self.violate("unexpected-exception", call, f"call #{ci}: raised {type(exc).__name__}: {exc}")
            return
        if res is not None:
            if tuple(res.shape) != tuple(A.shape) or res.dtype != dt:
                self.violate("shape-dtype", call, f"call #{ci}: result {tuple(res.shape)}/{res.dtype} for input {tuple(A.shape)}/{dt}")
                return
            if not bool(torch.isfinite(res).all()):
                self.violate("nan-in-factor", call, f"call #{ci}: returned factor contains NaN/Inf (model: first success per member {P})")
                return
            if call["entry"] == "direct_out" and res.data_ptr() != outbuf.data_ptr():
                self.violate("out-ignored", call, f"call #{ci}: result is not the out= buffer")
                return
        if exp["has_nan"]:
            self.stats["nanerr"] += 1
            if not isinstance(exc, NanError):
                self.violate("wrong-exception", call, f"call #{ci}: A contains NaN, expected NanError, got {outcome}")
            return
        if isinstance(exc, NanError):
            self.violate("wrong-exception", call, f"call #{ci}: NanError although A has no NaN")
            return
        if exc is not None:
            self.stats["notpsd"] += 1
            if not may_fail:
                self.violate("spurious-exception", call, f"call #{ci}: every member succeeds within max_tries={exp['max_tries']} "
                                                          f"(first success per member {P}), got {outcome}: {exc}")
            return
        if must_fail:
            self.violate("missing-exception", call, f"call #{ci}: some member never succeeds within max_tries={exp['max_tries']} "
                                                     f"(first success per member {P}, never={never}), expected NotPSDError, got a factor")
            return
        if must_exact:
            self.stats["exact_calls"] += 1
            if nwarn:
                self.violate("warning-spurious", call, f"call #{ci}: {nwarn} NumericalWarning(s) although no attempt failed")
                return
        elif not may_exact:
            self.stats["jittered_calls"] += 1
            R = max(min(p) for p in P)
            self.stats["retries"] += R
            if nwarn == 0:
                self.violate("warning-missing", call, f"call #{ci}: jitter was needed (first success per member {P}) but no NumericalWarning was emitted")
                return
            self.stats["warnings_equal_retries" if nwarn == R else "warnings_differ_retries"] += 1
        Lf = res.reshape(-1, n, n)
        Af = data.reshape(-1, n, n)
        eps = torch.finfo(dt).eps
        for m in range(Af.shape[0]):
            L = Lf[m].double()
            if call["upper"]:
                if float(L.tril(-1).abs().max()) != 0.0:
                    self.violate("not-triangular", call, f"call #{ci}: upper=True but member {m} has non-zero entries below the diagonal")
                    return
                L = L.T
            elif n > 1 and float(L.triu(1).abs().max()) != 0.0:
                self.violate("not-triangular", call, f"call #{ci}: upper=False but member {m} has non-zero entries above the diagonal")
                return
            if float(L.diagonal().min()) <= 0:
                self.violate("not-cholesky", call, f"call #{ci}: member {m} factor has a non-positive diagonal")
                return
            Am = Af[m].double()
            D = L @ L.T - Am
            dg = D.diagonal()
            applied = float(dg.mean())
            off = float((D - torch.diag(dg)).abs().max()) if n > 1 else 0.0
            okk = None
            cands = []
            for k in P[m]:
                if k == never:
                    continue
                c = 0.0 if k == 0 else exp["jitter"] * 10 ** (k - 1)
                tol = 64 * n * eps * max(float(Am.abs().max()), c) + 1e-5 * c
                cands.append(c)
                if abs(applied - c) <= tol and float((dg - c).abs().max()) <= tol and off <= tol:
                    okk = k
                    break
            if okk is None:
                kind = "offdiag-changed" if any(abs(applied - c) <= 64 * n * eps * max(float(Am.abs().max()), c) + 1e-5 * c for c in cands) else "jitter-amount"
                self.violate(kind, call, f"call #{ci}: member {m} factorizes A_m + {applied:.6g} I (off-diagonal deviation {off:.3g}), model expects "
                                         f"+ {cands} I (first success per member {P}, jitter={exp['jitter']:g}, schedule={call['schedule']})")
                return
            if okk >= 1:
                self.stats["members_jittered"] += 1
            elif not may_exact:
                self.stats["members_untouched_in_jittered_call"] += 1


# ----------------------------------------------------------------------------------------------------
# engine interface


def warmup():
    restore_pristine()
    A = torch.eye(3, dtype=torch.float64)
    chol_mod.psd_safe_cholesky(A)
    DenseLinearOperator(A).cholesky().to_dense()


def generate_run(seed, tier):
    scen = gen_scenario(sub_seed(seed, "gen"), tier)
    scen["run_seed"] = seed
    return scen, replay(scen)


def replay(scen):
    return Exec(scen).run()


def scenario_len(scen):
    return len(scen["calls"])


def minimise(scen, sig):
    def still(s):
        r = replay(s)
        return bool(r["violations"]) and r["violations"][0]["sig"] == sig

    cur = json.loads(json.dumps(scen))
    # keep only the failing call (calls are independent given pristine reset between them)
    for i in range(len(cur["calls"])):
        cand = dict(cur, calls=[cur["calls"][i]], sweep=False)
        if still(cand):
            cur = cand
            break
    call = cur["calls"][0] if len(cur["calls"]) == 1 else None
    if call is not None:
        for field, simple in (("upper", False), ("jsrc", "arg"), ("msrc", "arg")):
            if call[field] != simple:
                cand = json.loads(json.dumps(cur))
                cand["calls"][0][field] = simple
                if still(cand):
                    cur = cand
        if cur["calls"][0]["schedule"]:
            sched = cur["calls"][0]["schedule"]
            for m in range(len(sched)):
                for v in range(0, sched[m]):
                    cand = json.loads(json.dumps(cur))
                    cand["calls"][0]["schedule"][m] = v
                    if still(cand):
                        cur = cand
                        break
        if cur["layout"] != "contig":
            cand = dict(cur, layout="contig")
            if still(cand):
                cur = cand
    return cur, replay(cur)


def new_aggregate():
    return {"runs": 0, "stats": {}, "cases": {}, "nontrivial": {}, "samples": [], "selfchecked": 0, "by_layout": {}, "by_dtype": {},
            "by_entry": {}, "exhaustive_small_schedules": False}


def aggregate(agg, scen, res):
    agg["runs"] += 1
    for k, v in res["stats"].items():
        agg["stats"][k] = agg["stats"].get(k, 0) + v
    for c in res["cases"]:
        agg["cases"][c] = 1
    for c in res["nontrivial"]:
        agg["nontrivial"][c] = 1
    agg["by_layout"][scen["layout"]] = agg["by_layout"].get(scen["layout"], 0) + 1
    agg["by_dtype"][scen["dtype"]] = agg["by_dtype"].get(scen["dtype"], 0) + 1
    for c in scen["calls"]:
        agg["by_entry"][c["entry"]] = agg["by_entry"].get(c["entry"], 0) + 1
    if scen.get("sweep"):
        agg["exhaustive_small_schedules"] = True
    if len(agg["samples"]) < 3 and res["nontrivial"] and not scen.get("sweep"):
        agg["samples"].append({"run_seed": scen["run_seed"], "dtype": scen["dtype"], "batch": scen["batch"], "n": scen["n"],
                               "layout": scen["layout"], "member_kinds": scen["kinds"], "trace": res["trace"][:8]})


def finish_aggregate(agg):
    return agg


def merge_aggregate(total, agg):
    total["runs"] += agg["runs"]
    total["selfchecked"] = total.get("selfchecked", 0) + agg.get("selfchecked", 0)
    for k, v in agg["stats"].items():
        total["stats"][k] = total["stats"].get(k, 0) + v
    total["cases"].update(agg["cases"])
    total["nontrivial"].update(agg["nontrivial"])
    for key in ("by_layout", "by_dtype", "by_entry"):
        for k, v in agg[key].items():
            total[key][k] = total[key].get(k, 0) + v
    total["exhaustive_small_schedules"] = total["exhaustive_small_schedules"] or agg["exhaustive_small_schedules"]
    for s in agg["samples"]:
        if len(total["samples"]) < 3:
            total["samples"].append(s)


def evidence(total, tier):
    st = total["stats"]
    return {
        "distinct_nontrivial": len(total["nontrivial"]),
        "rule": "case = (batch shape, dtype, layout of A, upper, max_tries, jitter source, max_tries source, failure schedule vector "
                "or natural member-kind vector, entry point); one run = one matrix with 2-8 calls (or a complete sweep of all "
                "(max_tries+2)^members schedules when members<=3 and max_tries<=3); non-trivial iff at least one member retries or "
                "fails (model outcome != exact); distinct = distinct case tuples",
        "samples": total["samples"],
        "distinct_cases_total": len(total["cases"]),
        "steps_executed": st.get("calls", 0),
        "fault_kinds": {"F2a_chol_info (member-attempt failures injected at torch.linalg.cholesky_ex)":
                        {"armed_calls": st.get("injected_calls", 0), "fired_member_attempts": st.get("info_overrides_fired", 0)}},
        "reach_probes": {k: st.get(k, 0) for k in ("retries", "notpsd", "nanerr", "borderline_calls", "exact_calls", "jittered_calls",
                                                    "members_jittered", "members_untouched_in_jittered_call", "warnings_equal_retries",
                                                    "warnings_differ_retries", "sweeps")},
        "exhaustive_small_schedules": total["exhaustive_small_schedules"],
        "runs_by_layout": total["by_layout"],
        "runs_by_dtype": total["by_dtype"],
        "calls_by_entry": total["by_entry"],
        "generate_vs_replay_digest_selfchecks": total.get("selfchecked", 0),
        "components": {"real": ["linear_operator.utils.cholesky.psd_safe_cholesky", "DenseLinearOperator.cholesky / to_linear_operator(...).cholesky",
                                "settings.cholesky_jitter / cholesky_max_tries", "torch.linalg.cholesky_ex (always runs underneath the fake)"],
                       "stub": ["info override + NaN poisoning wrapper around torch.linalg.cholesky_ex while a schedule is armed"]},
    }


def summary_lines(total):
    st = total["stats"]
    return [f"calls={st.get('calls', 0)} distinct_cases={len(total['cases'])} nontrivial={len(total['nontrivial'])} "
            f"sweeps={st.get('sweeps', 0)} borderline={st.get('borderline_calls', 0)}",
            "reach: " + " ".join(f"{k}={st.get(k, 0)}" for k in ("injected_calls", "info_overrides_fired", "retries", "notpsd", "nanerr",
                                                                  "members_jittered", "members_untouched_in_jittered_call"))]
