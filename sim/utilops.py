"""Direct calls of linear_operator.utils.* and of the top-level functional API with world tensors: the part of
the C13 op alphabet that does not go through operator methods.  Every tensor argument is a world tensor (any of
the stressed layouts); every returned tensor is tracked by the conservation monitor."""
from __future__ import annotations

import hashlib
import json
import math

import torch

import linear_operator
from linear_operator import utils as U
from linear_operator.operators import LinearOperator
from linear_operator.utils import cholesky as chol_mod
from linear_operator.utils import interpolation, lanczos, permutation, sparse, toeplitz
from linear_operator.utils.contour_integral_quad import contour_integral_quad
from linear_operator.utils.minres import minres
from linear_operator.utils.pinverse import stable_pinverse
from linear_operator.utils.qr import stable_qr
from sim import seams, storage

UTIL_FNS = ["linear_cg", "minres", "lanczos_tridiag", "psd_safe_cholesky", "stable_qr", "stable_pinverse", "toeplitz", "sym_toeplitz",
            "toeplitz_matmul", "sym_toeplitz_matmul", "toeplitz_getitem", "sym_toeplitz_dqf", "left_interp", "left_t_interp", "make_sparse",
            "bdsmm", "sparse_getitem", "sparse_repeat", "to_sparse", "apply_permutation", "inverse_permutation", "ciq", "dsmm",
            "f_solve", "f_inv_quad", "f_inv_quad_logdet", "f_root_decomposition", "f_root_inv_decomposition", "f_pivoted_cholesky",
            "f_add_diagonal", "f_add_jitter", "f_diagonalization", "f_sqrt_inv_matmul", "detach_", "requires_grad_", "torch_fn", "getitem_index_tensors",
            "op_method", "caller_probe_vectors", "autograd_grad", "tiny_dense"]


# ----------------------------------------------------------------------------------------------------
# generation


def w_shape_of(ops, tid):
    for o in ops:
        if o.get("id") == tid:
            t = torch.tensor(o["data"])
            return tuple(t.shape)
    return ()


def gen_util(g, w):
    rng = g.rng
    if not hasattr(g, "util_fns"):
        g.util_fns = rng.sample(UTIL_FNS, rng.randint(4, 12))
    fn = rng.choice(g.util_fns)
    n = g.n
    batch = list(g.batch)
    ops = []

    def T(data, role, **kw):
        t, o = g.tensor_op(data, role, **kw)
        ops.append(o)
        return t

    def psd():
        return T(g.psd(n), "psd matrix")

    def rhs(cols=None):
        return T(g.randn(*(batch + [n, cols or rng.choice([1, 2, 3])])), "rhs")

    def world_op(psd_only=True):
        c = [o for o, r in w.objs.items() if (r.psd or not psd_only) and r.square]
        return rng.choice(c) if c else None

    a = {}
    if fn == "linear_cg":
        a = {"A": psd(), "rhs": rhs() if rng.random() < 0.8 or batch else T(g.randn(n), "rhs vector"), "n_tridiag": rng.choice([0, 0, 1, 2]),
             "tolerance": rng.choice([None, 1e-3, 1e-8]), "max_iter": rng.choice([None, 0, 1, 3, 50])}
        if a["n_tridiag"] and torch.Size(batch + [n, 1]) and rng.random() < 2:
            a["max_tridiag_iter"] = rng.choice([1, 3, n])
        if rng.random() < 0.55:
            # explicit initial guess: the rhs tensor itself (aliasing), a pre-allocated all-zero buffer, or a random guess
            kind = rng.choice(["alias", "zeros", "zeros", "random"])
            if kind == "alias":
                a["initial_guess"] = "like_rhs"
            else:
                shp = list(w_shape_of(ops, a["rhs"]))
                if kind == "zeros" and rng.random() < 0.3 and len(shp) >= 2:
                    shp[-1] = 1  # a zero guess that needs broadcasting
                a["initial_guess"] = T(torch.zeros(*shp, dtype=torch.float64) if kind == "zeros" else g.randn(*shp), "initial guess")
        if rng.random() < 0.3:
            a["precond"] = T(g.posvec(n), "diagonal preconditioner")
        if rng.random() < 0.15:
            a["zero_rhs"] = True
    elif fn == "minres":
        a = {"A": psd(), "rhs": rhs(), "max_iter": rng.choice([None, 1, 5, 50])}
        if rng.random() < 0.5:
            a["shifts"] = T(torch.tensor([0.0, 0.5, 2.0][: rng.randint(1, 3)], dtype=torch.float64), "shifts")
            a["value"] = rng.choice([None, 1.0, -0.5])
        if rng.random() < 0.2:
            a["precond"] = T(g.posvec(n), "diagonal preconditioner")
    elif fn == "lanczos_tridiag":
        a = {"A": psd(), "max_iter": rng.choice([1, 3, n, n + 5])}
        if rng.random() < 0.6:
            a["init_vecs"] = T(g.randn(*(batch + [n, rng.choice([1, 2])])), "lanczos init vectors")
    elif fn == "psd_safe_cholesky":
        kind = rng.choice(["pd", "pd", "singular", "indefinite"])
        A = g.psd(n)
        if kind == "singular":
            B = g.randn(*(batch + [n, max(1, n - 1)]))
            A = B @ B.mT
        elif kind == "indefinite":
            A = A - 1.5 * float(A.diagonal(dim1=-2, dim2=-1).max()) * torch.eye(n, dtype=torch.float64) * rng.choice([0.0, 1.0])
        a = {"A": T((A + A.mT) / 2, "matrix for cholesky"), "upper": rng.random() < 0.4, "jitter": rng.choice([None, 1e-6, 1e-3]),
             "max_tries": rng.choice([None, 1, 4])}
    elif fn in ("stable_qr", "stable_pinverse"):
        k = rng.choice([max(1, n - 2), n, n + 2])
        M = g.randn(*(batch + [n, k]))
        if rng.random() < 0.3:
            M[..., :, -1] = M[..., :, 0]  # rank deficient: the jitter path of stable_qr
        a = {"M": T(M, "matrix")}
    elif fn in ("toeplitz", "toeplitz_matmul", "toeplitz_getitem"):
        col = g.randn(*(batch + [n]))
        row = g.randn(*(batch + [n]))
        row[..., 0] = col[..., 0]
        a = {"col": T(col, "toeplitz column"), "row": T(row, "toeplitz row")}
        if fn == "toeplitz_matmul":
            a["rhs"] = rhs() if rng.random() < 0.8 or batch else T(g.randn(n), "rhs vector")
        if fn == "toeplitz_getitem":
            a["i"], a["j"] = rng.randrange(n), rng.randrange(n)
    elif fn in ("sym_toeplitz", "sym_toeplitz_matmul"):
        a = {"col": T(g.randn(*(batch + [n])), "toeplitz column")}
        if fn == "sym_toeplitz_matmul":
            a["rhs"] = rhs()
    elif fn == "sym_toeplitz_dqf":
        a = {"left": T(g.randn(*(batch + [2, n])), "left vectors"), "right": T(g.randn(*(batch + [2, n])), "right vectors")}
    elif fn in ("left_interp", "left_t_interp", "make_sparse"):
        m = n + 2
        k = 2
        idx = torch.stack([torch.tensor(sorted(rng.sample(range(m), k))) for _ in range(n)])
        val = torch.rand(n, k, dtype=torch.float64, generator=g.tg) + 0.1
        if fn == "make_sparse" and rng.random() < 0.3:
            val = torch.zeros(n, k, dtype=torch.float64)  # the all-zero path
        if batch and rng.random() < 0.5:
            idx = idx.expand(*(batch + [n, k])).clone()
            val = val.expand(*(batch + [n, k])).clone()
        a = {"idx": T(idx, "interpolation indices", dtype="int64"), "val": T(val, "interpolation values")}
        if fn == "left_interp":
            a["rhs"] = T(g.randn(m, rng.choice([1, 2])), "rhs") if rng.random() < 0.8 else T(g.randn(m), "rhs vector")
        elif fn == "left_t_interp":
            a["rhs"] = T(g.randn(n, rng.choice([1, 2])), "rhs")
            a["output_dim"] = m
        else:
            a["num_rows"] = m
    elif fn in ("bdsmm", "dsmm", "sparse_getitem", "sparse_repeat", "to_sparse"):
        M = g.randn(*(([2] if fn in ("bdsmm",) else []) + [n, n]))
        M[M.abs() < 0.7] = 0.0
        if rng.random() < 0.4:
            lo = rng.randrange(0, max(1, n - 1))
            hi = rng.randint(lo + 1, n)
            band = torch.zeros_like(M)
            band[..., lo:hi, :] = M[..., lo:hi, :] + 0.5  # every stored entry lies in rows lo..hi
            M = band
            a_band = [lo, hi]
        else:
            a_band = None
        a = {"M": T(M, "matrix to sparsify")}
        if a_band and fn == "sparse_getitem":
            a["slice"] = [a_band[0], a_band[1]] if rng.random() < 0.7 else [max(0, a_band[0] - 1), a_band[1]]
        if fn in ("bdsmm", "dsmm"):
            a["rhs"] = T(g.randn(*(([2] if fn == "bdsmm" else []) + [n, 2])), "rhs")
        if fn == "sparse_getitem":
            a["i"] = rng.randrange(n)
        if fn == "sparse_repeat":
            a["sizes"] = rng.choice([[2, 1], [1, 2], [2, 1, 1]])
    elif fn in ("apply_permutation", "inverse_permutation"):
        perm = torch.stack([torch.randperm(n, generator=g.tg) for _ in range(max(1, int(torch.Size(batch).numel())))]).reshape(batch + [n])
        a = {"perm": T(perm, "permutation", dtype="int64")}
        if fn == "apply_permutation":
            a["M"] = psd()
            a["which"] = rng.choice(["left", "right", "both"])
            if rng.random() < 0.4:
                a["op"] = world_op(False)
    elif fn == "ciq":
        o = world_op()
        if o is None:
            return None
        r = w.objs[o]
        nn = r.D.shape[-1]
        a = {"op": o, "rhs": T(g.randn(*(list(r.D.shape[:-2]) + [nn, rng.choice([1, 2])])), "rhs"), "inverse": rng.random() < 0.5}
        if rng.random() < 0.5:
            # quadrature nodes / weights re-used from an earlier call: caller-owned (c13-s11)
            Q = rng.choice([2, 3])
            obs = list(r.D.shape[:-2])
            a["shifts"] = T(g.randn(*([Q + 1] + obs)).abs() + 0.3, "ciq shifts")
            a["weights"] = T(g.randn(*([Q] + obs + [1, 1])), "ciq weights")
            a["shift_offset"] = rng.choice([0, 0.25, 0.1])
    elif fn == "autograd_grad":
        names = ["inv_root_lanczos", "root_default", "root_lanczos", "solve", "logdet", "inv_quad_logdet", "diagonalization", "sqrt_inv_matmul", "matmul", "diag"]
        k = rng.choice([1, 2, 2, 3])
        picked = set(rng.sample(names, k))
        a = {"A": psd(), "outs": [x for x in names if x in picked], "rhs": T(g.randn(*(batch + [n, 2])), "rhs"), "glayout": rng.choice(["contig", "transposed"])}
    elif fn == "tiny_dense":
        bb = rng.choice([[], [3], [2, 1]])
        m = rng.choice([1, 1, 2])
        a = {"A": T(g.psd(m, bb), "tiny psd matrix"), "which": rng.choice(["samples", "samples", "cholesky", "logdet", "solve", "root_decomposition", "root_inv_decomposition",
                                                                  "inv_quad_logdet", "diagonalization", "sqrt_inv_matmul", "add_jitter_cholesky", "svd", "pivoted_cholesky"])}
        a["rhs"] = T(g.randn(*(bb + [m, 2])), "rhs")
    elif fn.startswith("f_"):
        use_op = rng.random() < 0.5 and world_op() is not None
        if use_op:
            o = world_op()
            r = w.objs[o]
            a = {"input": o}
            nn, bb = r.D.shape[-1], list(r.D.shape[:-2])
        else:
            a = {"input": psd()}
            nn, bb = n, batch
        if fn in ("f_solve", "f_inv_quad", "f_inv_quad_logdet", "f_sqrt_inv_matmul"):
            a["rhs"] = T(g.randn(*(bb + [nn, rng.choice([1, 2])])), "rhs")
        if fn == "f_solve" and rng.random() < 0.3:
            a["lhs"] = T(g.randn(*(bb + [2, nn])), "lhs")
        if fn == "f_pivoted_cholesky":
            a["rank"] = rng.choice([1, 2, nn])
        if fn == "f_add_diagonal":
            a["diag"] = T(g.posvec(nn, bb), "added diagonal")
        if fn in ("f_root_decomposition", "f_root_inv_decomposition"):
            a["method"] = rng.choice([None, "cholesky", "symeig", "lanczos"])
    elif fn in ("detach_", "requires_grad_"):
        o = world_op(False)
        if o is None:
            return None
        a = {"op": o, "val": rng.random() < 0.5}
    elif fn == "getitem_index_tensors":
        o = world_op(False)
        if o is None:
            return None
        r = w.objs[o]
        nn, bb = r.D.shape[-1], list(r.D.shape[:-2])
        mm = r.D.shape[-2]
        k = rng.choice([1, 2, 3])
        rows = torch.tensor([rng.randrange(mm) for _ in range(k)])
        cols = torch.tensor([rng.randrange(nn) for _ in range(k)])
        a = {"op": o, "rows": T(rows, "row index tensor", dtype="int64"), "cols": T(cols, "column index tensor", dtype="int64"),
             "how": rng.choice(["elements", "rows_slice", "cols_slice"])}
        if bb and rng.random() < 0.6:
            # tensor indices for the batch dimensions as well (may exceed nothing: within range of each batch dim)
            a["batch_idx"] = [T(torch.tensor([rng.randrange(b_) for _ in range(k)]), "batch index tensor", dtype="int64") for b_ in bb]
            a["how"] = "elements"
    elif fn == "caller_probe_vectors":
        o = world_op()
        if o is None:
            return None
        r = w.objs[o]
        nn, bb = r.D.shape[-1], list(r.D.shape[:-2])
        pv = g.randn(*(bb + [nn, rng.choice([2, 5, 10])]))
        a = {"op": o, "probes": T(pv, "caller-supplied probe vectors"), "query": rng.choice(["logdet", "inv_quad_logdet"])}
        if a["query"] == "inv_quad_logdet":
            a["rhs"] = T(g.randn(*(bb + [nn, 2])), "rhs")
    elif fn == "op_method":
        o = world_op(False)
        if o is None:
            return None
        r = w.objs[o]
        nn, bb = r.D.shape[-1], list(r.D.shape[:-2])
        a = {"op": o, "which": rng.choice(["rmatmul", "sub", "sum_rows", "sum_cols", "to_dense_fn", "double", "float", "numpy", "t_matmul", "size", "repr",
                                             "representation", "squeeze", "abs_sqrt_exp_log", "inverse", "isclose", "permute_batch"])}
        if a["which"] in ("rmatmul",):
            a["lhs"] = T(g.randn(*(bb + [2, r.D.shape[-2]])), "lhs")
        if a["which"] in ("t_matmul",):
            a["rhs"] = T(g.randn(*(bb + [r.D.shape[-2], 2])), "rhs")
        if a["which"] in ("sub", "isclose"):
            a["other"] = T(g.randn(*list(r.D.shape)), "dense matrix")
    elif fn == "torch_fn":
        o = world_op()
        if o is None:
            return None
        r = w.objs[o]
        nn, bb = r.D.shape[-1], list(r.D.shape[:-2])
        a = {"op": o, "which": rng.choice(["matmul", "diagonal", "logdet", "solve", "cholesky", "eigh", "add", "mul", "sum", "transpose"])}
        if a["which"] in ("matmul", "solve"):
            a["rhs"] = T(g.randn(*(bb + [nn, 2])), "rhs")
    q = {"k": "util", "fn": fn, "args": a}
    if g.fault_kinds and g.faults_left > 0 and rng.random() < g.fault_rate:
        kind = rng.choice([k for k in g.fault_kinds if k != "cb"] or ["crash"])
        f = {"kind": kind, "u": round(rng.random(), 4)}
        if kind == "chol_info":
            f["attempts"] = rng.choice([1, 2, 4])
        if kind == "linalg_err":
            f["fn"] = rng.choice(["eigh", "svd", "qr", "eigvalsh"])
        if kind == "crash":
            f["v"] = round(rng.random(), 4)
        q["fault"] = f
        g.faults_left -= 1
    ops.append(q)
    return ops


# ----------------------------------------------------------------------------------------------------
# execution


def _run(w, fn, a, get):
    """Executes one utility call; returns the list of tensors / operators the library handed back."""
    A = get(a["A"]) if "A" in a else None
    if fn == "linear_cg":
        rhs = get(a["rhs"])
        if a.get("zero_rhs"):
            rhs = rhs * 0  # harness-owned temporary
        kw = {}
        for k in ("n_tridiag", "tolerance", "max_iter", "max_tridiag_iter"):
            if a.get(k) is not None:
                kw[k] = a[k]
        if a.get("initial_guess") == "like_rhs":
            kw["initial_guess"] = get(a["rhs"])  # the same caller tensor doubles as initial guess (aliasing)
        elif a.get("initial_guess"):
            kw["initial_guess"] = get(a["initial_guess"])
        if a.get("precond"):
            d = get(a["precond"])
            kw["preconditioner"] = lambda x: x / d.unsqueeze(-1)
        if kw.get("n_tridiag") and "max_tridiag_iter" in kw and kw.get("max_iter") is not None:
            kw["max_tridiag_iter"] = min(kw["max_tridiag_iter"], max(kw["max_iter"], 0))
        use_tensor = (a.get("n_tridiag", 0) == 0)
        out = U.linear_cg(A if use_tensor else A.matmul, rhs, **kw)
        return list(out) if isinstance(out, tuple) else [out]
    if fn == "minres":
        kw = {}
        if a.get("shifts"):
            kw["shifts"] = get(a["shifts"])
        if a.get("value") is not None:
            kw["value"] = a["value"]
        if a.get("max_iter") is not None:
            kw["max_iter"] = a["max_iter"]
        if a.get("precond"):
            d = get(a["precond"])
            kw["preconditioner"] = lambda x: x / d.unsqueeze(-1)
        return [minres(A, get(a["rhs"]), **kw)]
    if fn == "lanczos_tridiag":
        iv = get(a["init_vecs"]) if a.get("init_vecs") else None
        q, t = lanczos.lanczos_tridiag(A.matmul, a["max_iter"], dtype=A.dtype, device=A.device, matrix_shape=A.shape[-2:],
                                       batch_shape=A.shape[:-2], init_vecs=iv)
        ev, evec = lanczos.lanczos_tridiag_to_diag(t)
        return [q, t, ev, evec]
    if fn == "psd_safe_cholesky":
        kw = {k: a[k] for k in ("jitter", "max_tries") if a.get(k) is not None}
        return [chol_mod.psd_safe_cholesky(A, upper=a["upper"], **kw)]
    if fn == "stable_qr":
        return list(stable_qr(get(a["M"])))
    if fn == "stable_pinverse":
        return [stable_pinverse(get(a["M"]))]
    if fn == "toeplitz":
        return [toeplitz.toeplitz(get(a["col"]), get(a["row"]))]
    if fn == "sym_toeplitz":
        return [toeplitz.sym_toeplitz(get(a["col"]))]
    if fn == "toeplitz_matmul":
        return [toeplitz.toeplitz_matmul(get(a["col"]), get(a["row"]), get(a["rhs"]))]
    if fn == "sym_toeplitz_matmul":
        return [toeplitz.sym_toeplitz_matmul(get(a["col"]), get(a["rhs"]))]
    if fn == "toeplitz_getitem":
        return [toeplitz.toeplitz_getitem(get(a["col"]), get(a["row"]), a["i"], a["j"]), toeplitz.sym_toeplitz_getitem(get(a["col"]), a["i"], a["j"])]
    if fn == "sym_toeplitz_dqf":
        return [toeplitz.sym_toeplitz_derivative_quadratic_form(get(a["left"]), get(a["right"]))]
    if fn == "left_interp":
        return [interpolation.left_interp(get(a["idx"]), get(a["val"]), get(a["rhs"]))]
    if fn == "left_t_interp":
        return [interpolation.left_t_interp(get(a["idx"]), get(a["val"]), get(a["rhs"]), a["output_dim"])]
    if fn == "make_sparse":
        sp = sparse.make_sparse_from_indices_and_values(get(a["idx"]), get(a["val"]), a["num_rows"])
        return [sp.to_dense()]
    if fn in ("bdsmm", "dsmm", "sparse_getitem", "sparse_repeat", "to_sparse"):
        M = get(a["M"])
        sp = sparse.to_sparse(M)
        if fn == "to_sparse":
            return [sp.to_dense()]
        w._sparse_arg = (sp, sp.to_dense().clone())  # the sparse tensor is caller-owned from here on
        if fn == "bdsmm":
            return [sparse.bdsmm(sp, get(a["rhs"]))]
        if fn == "dsmm":
            return [linear_operator.dsmm(sp, get(a["rhs"]))]
        if fn == "sparse_getitem":
            idx = (slice(a["slice"][0], a["slice"][1]),) if a.get("slice") else (a["i"],)
            return [sparse.sparse_getitem(sp, idx).to_dense()]
        return [sparse.sparse_repeat(sp, *a["sizes"]).to_dense()]
    if fn == "inverse_permutation":
        return [permutation.inverse_permutation(get(a["perm"]))]
    if fn == "apply_permutation":
        M = get(a["op"]) if a.get("op") and w.has(a["op"]) else get(a["M"])
        p = get(a["perm"])
        if isinstance(M, LinearOperator) and (M.shape[-1] != p.shape[-1] or tuple(M.shape[:-2]) != tuple(p.shape[:-1])):
            M = get(a["M"])
        kw = {}
        if a["which"] in ("left", "both"):
            kw["left_permutation"] = p
        if a["which"] in ("right", "both"):
            kw["right_permutation"] = p
        out = permutation.apply_permutation(M, **kw)
        return [out]
    if fn == "ciq":
        if a.get("shifts"):
            solves, weights, _, _ = contour_integral_quad(get(a["op"]), get(a["rhs"]), inverse=a["inverse"], shifts=get(a["shifts"]), weights=get(a["weights"]),
                                                          shift_offset=a.get("shift_offset", 0))
        else:
            solves, weights, _, _ = contour_integral_quad(get(a["op"]), get(a["rhs"]), inverse=a["inverse"])
        return [solves, weights]
    if fn == "autograd_grad":
        # the gradient tensors a caller passes to autograd.grad / backward are caller-owned (c13-s12)
        from linear_operator.operators import DenseLinearOperator

        leaf = get(a["A"]).detach().clone().requires_grad_(True)  # harness-owned leaf
        op = DenseLinearOperator(leaf)
        rhs = get(a["rhs"])
        outs = []
        for name in a["outs"]:
            if name == "inv_root_lanczos":
                outs.append(op.root_inv_decomposition(method="lanczos").root.to_dense())
            elif name == "root_default":
                outs.append(op.root_decomposition().root.to_dense())
            elif name == "root_lanczos":
                outs.append(op.root_decomposition(method="lanczos").root.to_dense())
            elif name == "solve":
                outs.append(op.solve(rhs))
            elif name == "logdet":
                outs.append(op.logdet())
            elif name == "inv_quad_logdet":
                iq, ld = op.inv_quad_logdet(rhs, logdet=True)
                outs.extend([iq, ld])
            elif name == "diagonalization":
                ev, _ = op.diagonalization()
                outs.append(ev)
            elif name == "sqrt_inv_matmul":
                outs.append(op.sqrt_inv_matmul(rhs))
            elif name == "matmul":
                outs.append(op.matmul(rhs))
            elif name == "diag":
                outs.append(op.diagonal())
        outs = [o_ for o_ in outs if torch.is_tensor(o_) and o_.requires_grad]
        gen_ = torch.Generator().manual_seed(1234 + len(outs))
        gs = []
        for o_ in outs:
            if a.get("glayout") == "transposed" and o_.dim() >= 2:
                g_ = seams.REAL["randn"](*o_.mT.shape, dtype=o_.dtype, generator=gen_).mT
            else:
                g_ = seams.REAL["randn"](*o_.shape, dtype=o_.dtype, generator=gen_)
            gs.append(g_)
        w._adhoc_args = [(f"grad_outputs[{j}] for {a['outs']}", g_, g_.clone(), g_._version) for j, g_ in enumerate(gs)]
        if not outs:
            return []
        return list(x for x in torch.autograd.grad(outs, [leaf], grad_outputs=gs, allow_unused=True) if x is not None)
    if fn == "tiny_dense":
        # 1 x 1 / 2 x 2 operators take special-cased early exits (c13-s13)
        from linear_operator.operators import DenseLinearOperator

        op = DenseLinearOperator(get(a["A"]))
        wh = a["which"]
        rhs = get(a["rhs"])
        if wh == "samples":
            return [op.zero_mean_mvn_samples(3), op.zero_mean_mvn_samples(2)]
        if wh == "cholesky":
            return [op.cholesky().to_dense()]
        if wh == "logdet":
            return [op.logdet()]
        if wh == "solve":
            return [op.solve(rhs)]
        if wh == "root_decomposition":
            return [op.root_decomposition().root.to_dense()]
        if wh == "root_inv_decomposition":
            return [op.root_inv_decomposition().root.to_dense()]
        if wh == "inv_quad_logdet":
            return list(op.inv_quad_logdet(rhs, logdet=True))
        if wh == "diagonalization":
            ev, evec = op.diagonalization()
            return [ev, evec.to_dense() if isinstance(evec, LinearOperator) else evec]
        if wh == "sqrt_inv_matmul":
            return [op.sqrt_inv_matmul(rhs)]
        if wh == "add_jitter_cholesky":
            return [op.add_jitter(1e-3).cholesky().to_dense()]
        if wh == "svd":
            U_, S_v, V_ = op.svd()
            return [S_v]
        if wh == "pivoted_cholesky":
            return [op.pivoted_cholesky(rank=1)]
    if fn.startswith("f_"):
        inp = get(a["input"])
        if fn == "f_solve":
            return [linear_operator.solve(inp, get(a["rhs"]), get(a["lhs"])) if a.get("lhs") else linear_operator.solve(inp, get(a["rhs"]))]
        if fn == "f_inv_quad":
            return [linear_operator.inv_quad(inp, get(a["rhs"]))]
        if fn == "f_inv_quad_logdet":
            return list(linear_operator.inv_quad_logdet(inp, get(a["rhs"]), logdet=True))
        if fn == "f_root_decomposition":
            return [linear_operator.root_decomposition(inp, method=a["method"]) if a.get("method") else linear_operator.root_decomposition(inp)]
        if fn == "f_root_inv_decomposition":
            return [linear_operator.root_inv_decomposition(inp, method=a["method"]) if a.get("method") else linear_operator.root_inv_decomposition(inp)]
        if fn == "f_pivoted_cholesky":
            return [linear_operator.pivoted_cholesky(inp, a["rank"])]
        if fn == "f_add_diagonal":
            return [linear_operator.add_diagonal(inp, get(a["diag"]))]
        if fn == "f_add_jitter":
            return [linear_operator.add_jitter(inp, 0.1)]
        if fn == "f_diagonalization":
            ev, evec = linear_operator.diagonalization(inp)
            return [ev, evec]
        if fn == "f_sqrt_inv_matmul":
            return [linear_operator.sqrt_inv_matmul(inp, get(a["rhs"]))]
    if fn == "detach_":
        return [get(a["op"]).detach_()]
    if fn == "requires_grad_":
        return [get(a["op"]).requires_grad_(a["val"])]
    if fn == "getitem_index_tensors":
        op = get(a["op"])
        rows, cols = get(a["rows"]), get(a["cols"])
        if a.get("batch_idx"):
            return [op[tuple(get(b_) for b_ in a["batch_idx"]) + (rows, cols)]]
        if a["how"] == "elements":
            return [op[..., rows, cols]]
        if a["how"] == "rows_slice":
            res = op[..., rows, :]
        else:
            res = op[..., :, cols]
        return [res.to_dense() if isinstance(res, LinearOperator) else res]
    if fn == "caller_probe_vectors":
        # the caller supplies the probe vectors of the stochastic log-determinant through the documented global
        from linear_operator import settings as S_

        op = get(a["op"])
        prev_state, prev_pv = S_.deterministic_probes._state, S_.deterministic_probes.probe_vectors
        S_.deterministic_probes._set_state(True)
        S_.deterministic_probes.probe_vectors = get(a["probes"])
        try:
            if a["query"] == "logdet":
                return [op.logdet()]
            return list(op.inv_quad_logdet(get(a["rhs"]), logdet=True))
        finally:
            S_.deterministic_probes._set_state(prev_state)
            S_.deterministic_probes.probe_vectors = prev_pv
    if fn == "op_method":
        op = get(a["op"])
        wh = a["which"]
        if wh == "rmatmul":
            return [op.rmatmul(get(a["lhs"]))]
        if wh == "t_matmul":
            return [op._t_matmul(get(a["rhs"]))]
        if wh == "sub":
            res = op - get(a["other"])
            return [res.to_dense() if isinstance(res, LinearOperator) else res]
        if wh == "isclose":
            return [op.isclose(get(a["other"]))]
        if wh == "sum_rows":
            res = op.sum(-2)
            return [res.to_dense() if isinstance(res, LinearOperator) else res]
        if wh == "sum_cols":
            res = op.sum(-1)
            return [res.to_dense() if isinstance(res, LinearOperator) else res]
        if wh == "to_dense_fn":
            return [linear_operator.to_dense(op)]
        if wh == "double":
            return [op.double().to_dense()]
        if wh == "float":
            return [op.float().to_dense()]
        if wh == "numpy":
            return [torch.as_tensor(op.numpy())]
        if wh == "size":
            return [torch.tensor(list(op.size()))]
        if wh == "repr":
            repr(op)
            return []
        if wh == "representation":
            return [t_ for t_ in op.representation() if torch.is_tensor(t_)][:3]
        if wh == "squeeze":
            res = op.unsqueeze(0).squeeze(0)
            return [res.to_dense()]
        if wh == "abs_sqrt_exp_log":
            return [op.abs().to_dense(), op.sqrt().to_dense(), op.exp().to_dense(), op.log().to_dense()]
        if wh == "inverse":
            return [op.inverse().to_dense()]
        if wh == "permute_batch":
            if op.dim() < 3:
                return []
            dims = list(range(op.dim() - 2))[::-1] + [op.dim() - 2, op.dim() - 1]
            return [op.permute(*dims).to_dense()]
    if fn == "torch_fn":
        op = get(a["op"])
        wh = a["which"]
        if wh == "matmul":
            return [torch.matmul(op, get(a["rhs"]))]
        if wh == "solve":
            return [torch.linalg.solve(op, get(a["rhs"]))]
        if wh == "diagonal":
            return [torch.diagonal(op, dim1=-2, dim2=-1)]
        if wh == "logdet":
            return [torch.logdet(op)]
        if wh == "cholesky":
            return [torch.linalg.cholesky(op)]
        if wh == "eigh":
            return list(torch.linalg.eigh(op))
        if wh == "add":
            return [torch.add(op, op)]
        if wh == "mul":
            return [torch.mul(op, 2.0)]
        if wh == "sum":
            return [torch.sum(op, dim=-1)]
        if wh == "transpose":
            return [torch.transpose(op, -1, -2)]
    raise KeyError(fn)


def _flatten(out):
    for x in out:
        if x is None:
            continue
        if isinstance(x, (tuple, list)):
            yield from _flatten(x)
        else:
            yield x


def op_util(w, i, op):
    fn = op["fn"]
    a = op.get("args", {})
    if not w.refs_ok(a):
        w.log.add(i, "skip-util", fn)
        return
    fault = op.get("fault")
    seed = w._seed(i, "u")
    # counting pass on clones (fresh twins of every argument), then the real call with the fault armed
    ftrace = None
    fcounts = {k: 0 for k in seams.LINALG.counts}
    if fault:
        env = {}

        def fget(x):
            if x in w.tensors:
                return w.fresh_tensor(x, env)
            return w.rebuild(x, env)

        seams.RANDN.reseed(seed)
        seams.LINALG.reset()
        if fault["kind"] == "crash":
            seams.CRASH.start_trace()
        try:
            _run(w, fn, a, fget)
        except Exception:
            pass
        finally:
            if fault["kind"] == "crash":
                ftrace = seams.CRASH.stop_trace()
        fcounts = dict(seams.LINALG.counts)
        seams.drain_log()
    armed = None
    fired = False
    seams.LINALG.reset()
    pre_flags = {}
    if fn in ("detach_", "requires_grad_") and a.get("op") in w.objs:
        pass
    if fault:
        dummy = type("R", (), {"cb": None})()
        armed = w._arm(fault, dummy, fcounts, 0, ftrace)
    seams.RANDN.reseed(seed)
    out = exc = None
    try:
        out = _run(w, fn, a, w.get_live)
    except Exception as e:
        exc = e
    finally:
        if fault:
            fired = w._disarm(fault, type("R", (), {"cb": None})())
    paths = _paths(seams.drain_log())
    w.stat("utils")
    w.stat("util_" + fn)
    for p in paths:
        w.stat("path_" + p)
    if fault:
        w.stat(f"fault_{fault['kind']}_armed")
        if fired:
            w.stat(f"fault_{fault['kind']}_fired")
    outcome = type(exc).__name__ if exc is not None else "ok"
    shas = []
    if out is not None:
        from sim.engine import tensor_sha

        for x in _flatten(out):
            if torch.is_tensor(x):
                shas.append(tensor_sha(x))
    w.log.add(i, "util", fn, a, outcome, shas, armed, fired)
    w.trace.append(f"#{i} util {fn}({', '.join(f'{k}={v}' for k, v in a.items())})"
                   f"{' FAULT ' + json.dumps(armed) + (' fired' if fired else ' not fired') if fault else ''} -> {outcome} via {paths or '-'}")
    # case keys (evidence): function x argument position x layout x path x fault
    n_tensor_args = 0
    for k, v in a.items():
        if isinstance(v, str) and v in w.tensors:
            n_tensor_args += 1
            case = (fn, k, w.tensors[v]["spec"]["layout"], tuple(paths), bool(fired))
            h = hashlib.blake2b(json.dumps(case).encode(), digest_size=8).hexdigest()
            w.cases13.add(h)
            w.nontrivial13.add(h)
    if n_tensor_args == 0:
        w.cases13.add(hashlib.blake2b(json.dumps((fn, "no-tensor")).encode(), digest_size=8).hexdigest())
    # the explicitly in-place methods may touch metadata (requires_grad, grad_fn) but never values
    if fn in ("detach_", "requires_grad_"):
        for rec in w.tensors.values():
            rec["snap"].requires_grad = rec["base"].requires_grad
            rec["vsnap"].requires_grad = rec["view"].requires_grad
        for _, t_, snap_, base_ in w.returned:
            snap_.requires_grad = base_.requires_grad
    w.check_conservation(fn)
    adhoc = getattr(w, "_adhoc_args", None)
    if adhoc:
        w._adhoc_args = None
        for desc, t_, before, ver in adhoc:
            if w.mode == "C13" and not (t_._version == ver and torch.equal(t_, before)):
                w.violate("C13", "tensor-mutated", "contig", fn, f"step {i} ({fn}): caller tensor {desc} changed: _version {ver} -> {t_._version}; "
                          f"max abs change {float((t_ - before).abs().max()) if t_.numel() else 0.0:.3g}")
                break
    sa = getattr(w, "_sparse_arg", None)
    if sa is not None:
        w._sparse_arg = None
        try:
            now = sa[0].to_dense()
            same = now.shape == sa[1].shape and torch.equal(now, sa[1])
        except Exception:
            same = False
        if not same and w.mode == "C13":
            w.violate("C13", "sparse-argument-mutated", "sparse", fn, f"step {i} ({fn}): the sparse matrix passed by the caller represents a different matrix after the call")
    # results handed back to the caller are caller-owned from now on
    if out is not None and not w.violations:
        for j, x in enumerate(_flatten(out)):
            if torch.is_tensor(x) and not x.is_sparse and x.numel() <= 4096 and len(w.returned) < 40:
                w.track_tensor(f"result {j} of {fn} at step {i}", x)


def _paths(records):
    from sim.histsim import _paths as p

    return p(records)
