"""Direct calls of linear_operator.utils.* and the functional API with world tensors (C13 op alphabet)."""


def gen_util(gen, w):
    return None


def op_util(w, i, op):
    return None
