"""Self-tests that gate trust in the simulator: determinism of runs, sensitivity to seeded defects."""
from __future__ import annotations

import json
import os
import shutil
import subprocess
import sys
import time

from sim import engine


def _run_digests(prop, indices, hashseed, base, extra_env=None, warm=0):
    """Run the given run indices in ONE fresh interpreter; returns {index: digest}."""
    code = (
        "import sys, json\n"
        f"sys.path.insert(0, {engine.VERIF_DIR!r})\n"
        "from sim import engine\n"
        "engine.setup_process()\n"
        f"m = engine.get_property_module({prop!r})\n"
        "m.warmup()\n"
        f"for j in range({warm}):\n"
        f"    m.generate_run(engine.run_seed(987654321, {prop!r}, j), 'quick')\n"
        "out = {}\n"
        f"for i in {list(indices)!r}:\n"
        f"    scen, res = m.generate_run(engine.run_seed({base}, {prop!r}, i), 'quick')\n"
        "    out[i] = res['digest'] + ':' + str(len(res.get('violations') or []))\n"
        "print('DIGESTS ' + json.dumps(out))\n"
    )
    env = engine.worker_env(extra_env)
    env["PYTHONHASHSEED"] = str(hashseed)
    p = subprocess.run([engine.PY, "-c", code], env=env, capture_output=True, text=True, timeout=3600)
    for ln in p.stdout.splitlines():
        if ln.startswith("DIGESTS "):
            return {int(k): v for k, v in json.loads(ln[8:]).items()}
    raise engine.HarnessError(f"determinism worker failed rc={p.returncode}: {p.stderr[-2000:]}")


def determinism(argv):
    """simcheck selftest-determinism [props...] [--n N]: every run seed executed (i) in process A in order,
    (ii) in a fresh interpreter under another PYTHONHASHSEED in reverse order after 50 unrelated runs,
    (iii) sliced over 16 fresh interpreters (worker-count independence).  All digests must agree."""
    from concurrent.futures import ThreadPoolExecutor

    props = [a for a in argv if a.startswith("C")] or ["C12", "C13", "C16", "C17"]
    n = 500
    if "--n" in argv:
        n = int(argv[argv.index("--n") + 1])
    base = engine.base_seed()
    rc = 0
    for prop in props:
        t0 = time.time()
        idx = list(range(n))
        nw = 16
        jobs = []
        with ThreadPoolExecutor(max_workers=16) as ex:
            # (i) 8 processes, contiguous blocks, hashseed 0
            blocks = [idx[k::8] for k in range(8)]
            a_f = [ex.submit(_run_digests, prop, b, 0, base) for b in blocks]
            a = {}
            for f in a_f:
                a.update(f.result())
            # (ii) other hashseed, reversed order, after 50 unrelated runs, different slicing (5 processes)
            blocks = [list(reversed(idx[k::5])) for k in range(5)]
            b_f = [ex.submit(_run_digests, prop, b, 1234, base, None, 50) for b in blocks]
            b = {}
            for f in b_f:
                b.update(f.result())
            # (iii) 16-way slicing
            blocks = [idx[k::nw] for k in range(nw)]
            c_f = [ex.submit(_run_digests, prop, blk, 77, base) for blk in blocks]
            c = {}
            for f in c_f:
                c.update(f.result())
        bad = [i for i in idx if not (a[i] == b[i] == c[i])]
        print(f"[selftest-determinism] {prop}: {n} run seeds x 3 executions (orders, PYTHONHASHSEED 0/1234/77, 8/5/16 processes): "
              f"{len(bad)} mismatches, {time.time() - t0:.0f}s")
        for i in bad[:10]:
            print(f"   index {i}: {a[i]} {b[i]} {c[i]}")
        if bad:
            rc = 2
    return rc


def mutants(argv):
    """simcheck selftest-mutants [names or property ids...]: each catalogue entry must make the quick check exit 1."""
    from sim import mutants as M

    sel = [a for a in argv if not a.startswith("--")]
    names = [n for n, (prop, *_rest) in M.CATALOGUE.items() if not sel or n in sel or prop in sel]
    runs = None
    if "--runs" in argv:
        runs = argv[argv.index("--runs") + 1]
    results = {}
    for name in names:
        prop = M.CATALOGUE[name][0]
        t0 = time.time()
        d = M.make_scratch(name)
        try:
            cmd = [engine.PY, os.path.join(engine.VERIF_DIR, "bin", "simcheck.py"), prop, "--tier", "quick"]
            if runs:
                cmd += ["--runs", runs]
            env = dict(os.environ, VERIF_REPO=d, VERIF_EVIDENCE_DIR=os.path.join(d, "evidence"), VERIF_REPLAY_DIR=os.path.join(d, "replays"),
                       VERIF_STOP_ON_FIRST="1")
            p = subprocess.run(cmd, env=env, capture_output=True, text=True, timeout=3600)
            vio = [ln for ln in p.stdout.splitlines() if ln.startswith("[simcheck] violation")]
            results[name] = (p.returncode, vio[0][:260] if vio else p.stdout[-600:])
            print(f"[selftest-mutants] {name:40s} {prop} rc={p.returncode} {'KILLED' if p.returncode == 1 else 'SURVIVED'} "
                  f"{time.time() - t0:.0f}s  {vio[0][21:220] if vio else ''}", flush=True)
            if p.returncode not in (0, 1):
                print(p.stdout[-1500:])
        finally:
            shutil.rmtree(d, ignore_errors=True)
    surv = [n for n, (rc, _) in results.items() if rc != 1]
    print(f"[selftest-mutants] {len(results) - len(surv)}/{len(results)} killed; survivors: {surv}")
    return 0 if not surv else 2
