"""History simulator shared by C12 (cache transparency) and C13 (conservation of caller storage).

A scenario is a flat JSON list of self-contained operations (tensor / build / derive / query / set / util),
each optionally carrying a fault.  Replay is tolerant: an op whose referenced ids do not exist is skipped,
which is what lets plain delta debugging work on stateful sequences.
"""
from __future__ import annotations

import json
import math
import os
import traceback
import warnings

import torch

from linear_operator.operators import LinearOperator
from sim import seams, storage, world
from sim.engine import EventLog, HarnessError, sub_seed, tensor_sha
from sim.world import QUERIES, RECIPES, CallbackState

# forward functionals (reconstruction of the matrix) / inverse functionals (amplified by the condition number <= 1e3
# and by the 1e-6 tridiagonal jitter of every Lanczos-based path)
FLOOR = {"float64": 1e-4, "float32": 1e-2}
FLOOR_INV = {"float64": 5e-3, "float32": 5e-2}
INVERSE_QUERIES = {"root_inv_decomposition", "solve", "logdet", "inv_quad", "inv_quad_logdet", "sqrt_inv_matmul", "inverse", "preconditioner"}
VACUOUS = 1e-2
# O6: queries whose algorithm is deterministic, draws no random numbers and reads no cache on the unchanged tree.  The
# historied object and its fresh twin hold the same data under the same settings, so the two answers must agree directly,
# also where the error functional is vacuous (a low-rank approximation is "inexact" by design, but it is the same one)
SHAPE_FREE_QUERIES = {"root_decomposition", "root_inv_decomposition", "diagonalization", "pivoted_cholesky", "preconditioner", "samples"}
DIRECT_QUERIES = {"pivoted_cholesky"}
DIRECT_LIM = {"float64": 1e-3, "float32": 2e-2}


class ObjRec:
    __slots__ = ("oid", "op", "spec", "settings", "seed", "D", "psd", "faulted", "cb", "cls", "square", "created_step", "dense0", "deps", "cond", "jitter_taint")

    def __init__(self, oid):
        self.oid = oid
        self.faulted = False
        self.cb = None
        self.dense0 = None
        self.cond = None
        self.jitter_taint = 0.0


def _is_psd(D):
    if D.shape[-1] != D.shape[-2] or D.numel() == 0:
        return False
    Dd = D.double()
    if not bool(torch.isfinite(Dd).all()):
        return False
    if float((Dd - Dd.mT).abs().max()) > 1e-9 * max(1.0, float(Dd.abs().max())):
        return False
    try:
        w = torch.linalg.eigvalsh(Dd)
    except Exception:
        return False
    # "PSD" for the world means positive definite with condition number below 5e3 (the recipes promise <= 1e3; derived
    # operators such as singular + 1e-3 jitter can be far worse and make every inverse functional and every low-rank /
    # concatenation update numerically meaningless)
    return bool((w[..., 0] > 2e-4 * w[..., -1].clamp_min(1e-300)).all())


class World:
    def __init__(self, scen, mode):
        self.scen = scen
        self.mode = mode  # "C12" | "C13"
        self.dtype = scen["dtype"]
        self.run_seed = scen.get("run_seed", 0)
        self.log = EventLog(self.run_seed)
        self.tensors = {}  # id -> dict(view, base, snap, vsnap, spec)
        self.objs = {}
        self.violations = []
        self.trace = []
        self.step = -1
        self.stats = {}
        self.fingerprints = set()
        self.nontrivial = set()
        self.cases13 = set()
        self.nontrivial13 = set()
        self.prov = {}  # (oid, path, name) -> (step, writer kind, query)
        self.returned = []  # operators / tensors the library returned to the caller: (label, obj, snapshot or dense)
        self.c13_seen = 0
        self.knockout = scen.get("knockout")
        self.entries_by_step = {}
        self.parent_roots_after_derive = {}
        self.qlog = {}
        self._keepalive = []
        self.fresh_parent_entry_errs = {}
        self.created_at = {}
        self.o2_results = {}

    # ------------------------------------------------------------------------------------------ util
    def stat(self, k, n=1):
        self.stats[k] = self.stats.get(k, 0) + n

    def violate(self, prop, kind, cls, what, detail):
        if not self.violations:
            self.violations.append({"sig": [prop, kind, cls, what], "detail": detail, "step": self.step})
            pass

    def get_live(self, x):
        if x == "@cb":
            return self._cur_cb
        if x in self.tensors:
            return self.tensors[x]["view"]
        if x in self.objs:
            return self.objs[x].op
        raise KeyError(x)

    def has(self, x):
        return x == "@cb" or x in self.tensors or x in self.objs

    def refs_ok(self, args):
        for v in _iter_refs(args):
            if not self.has(v):
                return False
        return True

    # ------------------------------------------------------------------------------------------ fresh rebuild
    def fresh_tensor(self, tid, env):
        key = "T:" + tid
        if key not in env:
            spec = self.tensors[tid]["spec"]
            data = storage.fromlist(spec["data"], spec["dtype"])
            view, _ = storage.make_layout(data, spec["layout"])
            env[key] = view
        return env[key]

    def rebuild(self, oid, env):
        if oid in env:
            return env[oid]
        rec = self.objs[oid]
        spec = rec.spec
        cb = CallbackState() if rec.cb is not None else None

        def get(x):
            if x == "@cb":
                return cb
            if x in self.tensors:
                return self.fresh_tensor(x, env)
            return self.rebuild(x, env)

        # dependencies first, so that the randn stream at construction time is the one the historied
        # construction saw (reseeded right before the constructor runs)
        for ref in _iter_refs(spec.get("args", {})):
            get(ref)
        if spec["k"] == "build":
            saved = world.settings_snapshot()
            world.settings_apply(rec.settings)
            seams.RANDN.reseed(rec.seed)
            try:
                obj = RECIPES[spec["recipe"]](get, spec["args"])
            finally:
                world.settings_apply(saved)
        else:
            src = self.rebuild(spec["src"], env)
            saved = world.settings_snapshot()
            world.settings_apply(rec.settings)
            seams.RANDN.reseed(rec.seed)
            try:
                obj = world.derive(src, spec["how"], spec["args"], get)
            finally:
                world.settings_apply(saved)
            # the reference for a derived operator is a *cache-less* copy: whatever the derivation transplanted onto
            # the new object is exactly what O1/O2 must judge, so it may not be part of the reference
            if isinstance(obj, LinearOperator) and getattr(obj, "_memoize_cache", None):
                obj._memoize_cache = {}
        env[oid] = obj
        if cb is not None:
            env["CB:" + oid] = cb
        return obj

    # ------------------------------------------------------------------------------------------ conservation monitor (C13)
    def track_tensor(self, label, t, base=None):
        base = t if base is None else base
        self.returned.append((label, t, storage.Snap(base, keep_raw=False), base))

    def check_conservation(self, what, exempt=()):
        """Every caller-owned tensor: version, whole storage, metadata unchanged.  In C13 mode also every
        pre-existing operator's dense value (read through its cache on purpose)."""
        for tid, rec in self.tensors.items():
            if tid in exempt:
                continue
            d = rec["snap"].diff(rec["base"]) + [x for x in rec["vsnap"].diff(rec["view"]) if x not in ()]
            if d:
                self.c13_seen += 1
                if self.mode == "C13":
                    self.violate("C13", "tensor-mutated", rec["spec"]["layout"], what,
                                 f"step {self.step} ({what}): caller tensor {tid} ({rec['spec'].get('role')}, layout {rec['spec']['layout']}) changed: {'; '.join(dict.fromkeys(d))}")
                    return
                # re-snapshot so that one breach is counted once
                rec["snap"] = storage.Snap(rec["base"])
                rec["vsnap"] = storage.Snap(rec["view"])
        if self.mode != "C13":
            return
        for label, t, snap, base in self.returned:
            d = snap.diff(base)
            if d:
                self.violate("C13", "returned-tensor-mutated", "returned", what,
                             f"step {self.step} ({what}): tensor returned earlier by the library ({label}) changed: {'; '.join(d)}")
                return
        for oid, rec in self.objs.items():
            if oid in exempt or rec.dense0 is None:
                continue
            try:
                with warnings.catch_warnings():
                    warnings.simplefilter("ignore")
                    now = rec.op.to_dense()
            except Exception as e:  # to_dense worked before
                self.violate("C13", "operator-changed", rec.cls, what, f"step {self.step} ({what}): to_dense() of existing {oid} ({rec.cls}) now raises {type(e).__name__}: {e}")
                return
            if now.shape != rec.dense0.shape or not torch.equal(now.detach(), rec.dense0):
                if bool(torch.isnan(now).any()) and bool(torch.isnan(rec.dense0).any()):
                    continue
                diff = float((now.detach().double() - rec.dense0.double()).abs().max()) if now.shape == rec.dense0.shape else float("nan")
                self.violate("C13", "operator-changed", rec.cls, what,
                             f"step {self.step} ({what}): matrix represented by existing operator {oid} ({rec.cls}) changed (max abs diff {diff:.3g})")
                return
            for i, arg in enumerate(rec.op._args):
                pass

    # ------------------------------------------------------------------------------------------ provenance
    def cache_snapshot(self):
        out = {}
        for oid, rec in self.objs.items():
            for path, name, vid in world.cache_entries(rec.op, with_ids=True):
                out[(oid, path, name)] = vid
        return out

    def update_provenance(self, before, writer):
        after = self.cache_snapshot()
        for k in after:
            if (k not in before and k not in self.prov) or (k in before and before[k] != after[k]):
                self.prov[k] = writer  # new entry, or an existing entry overwritten with another object
        for k in list(self.prov):
            if k not in after:
                del self.prov[k]
        return after

    # ------------------------------------------------------------------------------------------ ops
    def begin(self):
        world.restore_pristine()
        seams.install_all()
        self._wctx = warnings.catch_warnings(record=True)
        self._wlist = self._wctx.__enter__()
        warnings.simplefilter("always")

    def finish(self):
        self._wctx.__exit__(None, None, None)
        world.restore_pristine()
        return {
            "digest": self.log.digest(),
            "violations": self.violations,
            "trace": self.trace,
            "stats": self.stats,
            "fingerprints": sorted(self.fingerprints),
            "nontrivial": sorted(self.nontrivial),
            "cases13": sorted(self.cases13),
            "nontrivial13": sorted(self.nontrivial13),
            "c13_seen": self.c13_seen,
            "last_entries": getattr(self, "last_entries", []),
            "entries_by_step": self.entries_by_step,
            "classes": sorted({r_.cls for r_ in self.objs.values()}),
            "parent_roots_after_derive": self.parent_roots_after_derive,
        }

    def run(self):
        self.begin()
        try:
            for i, op in enumerate(self.scen["ops"]):
                self.step = i
                if self.violations:
                    break
                self.apply(i, op)
        except BaseException:
            self._wctx.__exit__(None, None, None)
            world.restore_pristine()
            raise
        return self.finish()

    def _pre_step(self, i, op):
        """Attribution support: record the cache entries (and their accuracy) of every object the op references,
        and apply a requested knock-out, right before the op executes."""
        refs = []
        if op["k"] == "query":
            refs.append(op["obj"])
        elif op["k"] == "derive":
            refs.append(op["src"])
        if op["k"] in ("build", "derive", "query"):
            refs.extend(r for r in _iter_refs(op.get("args", {})) if r in self.objs)
        refs = [r for r in dict.fromkeys(refs) if r in self.objs]
        ko = self.knockout
        if ko and ko.get("step") == i:
            for item in (ko.get("group") or [ko]):
                if item.get("obj") in self.objs:
                    world.knock_out(self.objs[item["obj"]].op, item["path"], item["name"])
        if self.scen.get("measure_entries"):
            rows = []
            for oid in refs:
                rec = self.objs[oid]
                try:
                    fresh = self.rebuild(oid, {})
                except Exception:
                    fresh = None
                pc_err = None
                for p, n in world.cache_entries(rec.op):
                    w = self.prov.get((oid, p, n), (None, "?", "?"))
                    if n.startswith("@_") and p == "." and pc_err is None:
                        # ad-hoc preconditioner cache: "full" error = does P differ from the matrix (it is an approximation by
                        # construction when its rank is below n), "projected" error = is the cached triple self-consistent
                        try:
                            r_ = QUERIES["preconditioner"](rec.op, {}, rec.D, self.get_live)
                            cl_, P_, ld_ = rec.op._preconditioner()
                            full_ = 0.0 if P_ is None else world._rel(P_.to_dense(), rec.D)
                            pc_err = (max(full_, 1.0 if r_.err > 5e-3 else 0.0), r_.err)
                        except Exception:
                            pc_err = (float("inf"), float("inf"))
                    direct_inexact = False
                    if len(w) >= 6 and w[1] == "query" and w[4] == "exc" and w[5] == "exc":
                        direct_inexact = True  # left behind by a query that fails on a fresh copy as well
                    elif len(w) >= 6 and w[1] == "query" and isinstance(w[4], float) and isinstance(w[5], float):
                        # the entry was written (as result or side effect) by a query whose own answer was just as inexact on
                        # its fresh twin: the library computes garbage for this operator with or without history
                        direct_inexact = (w[5] > 1e-4 or w[5] != w[5]) and (w[4] <= max(30 * w[5], 1e-2) or w[4] == w[5] or (w[4] != w[4] and w[5] != w[5]))
                    if len(w) >= 3 and w[1] == "derive" and p == ".":
                        fe = self.fresh_parent_entry_errs.get((w[0], n))
                        if fe is not None and fe[0] > 1e-4:
                            direct_inexact = True  # the derivation leaves an equally inexact entry on a fresh parent
                        o2r = self.o2_results.get((oid, n.split("(")[0]))
                        if (o2r is not None and self.created_at.get(oid) == w[0] and isinstance(o2r[0], float) and isinstance(o2r[1], float)
                                and o2r[1] > 1e-4 and o2r[0] <= max(30 * o2r[1], 1e-2)):
                            # the transplanted entry was judged at creation (O2) and a re-computation on the object derived from fresh
                            # parents was just as inexact: the library computes garbage for this operator with or without history
                            direct_inexact = True
                    rows.append({"step": i, "obj": oid, "path": p, "name": n, "writer": f"{w[1]}:{w[2]}", "direct_inexact": direct_inexact,
                                 "err": (pc_err if (n.startswith("@_") and p == ".") else world.entry_error(rec.op, p, n, fresh))})
            self.entries_by_step[i] = rows

    def _drain_warnings(self):
        """Reach probes read from the library's own warnings (rare designed branches)."""
        wl = getattr(self, "_wlist", None)
        if not wl:
            return
        for w_ in wl:
            msg = str(w_.message)
            if "added jitter" in msg:
                self.stat("reach_cholesky_jitter_retry")
            elif "Using symeig method" in msg:
                self.stat("reach_cholesky_to_symeig_fallback")
            elif "NaNs encountered in preconditioner" in msg:
                self.stat("reach_preconditioner_nan_fallback")
            elif "CG terminated" in msg:
                self.stat("reach_cg_not_converged")
            elif "negative" in msg.lower() and "eigen" in msg.lower():
                self.stat("reach_negative_eigenvalues_warning")
        del wl[:]

    def apply(self, i, op):
        try:
            return self._apply(i, op)
        finally:
            self._drain_warnings()

    def _apply(self, i, op):
        k = op["k"]
        if self.knockout or self.scen.get("measure_entries"):
            self._pre_step(i, op)
        if k == "tensor":
            return self.op_tensor(i, op)
        if k == "set":
            world._set_setting(op["name"], op["value"])
            self.log.add(i, "set", op["name"], op["value"])
            self.trace.append(f"#{i} set {op['name']} = {op['value']}")
            self.stat("sets")
            return
        if k in ("build", "derive"):
            return self.op_create(i, op)
        if k == "query":
            return self.op_query(i, op)
        if k == "util":
            from sim import utilops

            return utilops.op_util(self, i, op)
        raise HarnessError(f"unknown op kind {k}")

    def op_tensor(self, i, op):
        data = storage.fromlist(op["data"], op["dtype"])
        if op.get("alias_of") and op["alias_of"] in self.tensors:
            # a view into another world tensor (same storage)
            src = self.tensors[op["alias_of"]]
            view = _alias_view(src["view"], op.get("alias_how"))
            if view is None:
                self.log.add(i, "tensor-skip", op["id"])
                return
            base = src["base"]
        else:
            view, base = storage.make_layout(data, op["layout"])
        self.tensors[op["id"]] = {"view": view, "base": base, "snap": storage.Snap(base, keep_raw=True), "vsnap": storage.Snap(view), "spec": op}
        self.log.add(i, "tensor", op["id"], op["layout"], list(view.shape), tensor_sha(view))
        self.stat("tensors")
        self.stat("layout_" + op["layout"])

    def _seed(self, i, phase=""):
        return sub_seed(self.run_seed, "step", i, phase)

    def op_create(self, i, op):
        oid = op["id"]
        if oid in self.objs:
            return
        refs = dict(op.get("args", {}))
        if op["k"] == "derive":
            if op["src"] not in self.objs:
                self.log.add(i, "skip", oid)
                return
        if not self.refs_ok(op.get("args", {})):
            self.log.add(i, "skip", oid)
            return
        rec = ObjRec(oid)
        rec.spec = op
        rec.settings = world.settings_snapshot()
        rec.seed = self._seed(i, "create")
        rec.created_step = i
        uses_cb = op["k"] == "build" and op["recipe"] in ("Kernel", "User")
        if uses_cb:
            rec.cb = CallbackState()
        self._cur_cb = rec.cb
        before = self.cache_snapshot()
        if op["k"] == "derive":
            src_rec = self.objs[op["src"]]
            self.last_entries = [(p, n, list(self.prov.get((src_rec.oid, p, n), (None, "?", "?")))) for p, n in world.cache_entries(src_rec.op)]
            self.derive_entries = self.last_entries
        seams.RANDN.reseed(rec.seed)
        hist_exc = None
        obj = None
        try:
            if op["k"] == "build":
                obj = RECIPES[op["recipe"]](self.get_live, op["args"])
            else:
                obj = world.derive(self.objs[op["src"]].op, op["how"], op["args"], self.get_live)
        except Exception as e:
            hist_exc = e
        seams.drain_log()
        if self.scen.get("measure_entries") and op["k"] == "derive" and op["src"] in self.objs:
            # accuracy of the parent's root factors right after the derivation (they are what add_low_rank / cat_rows transplant)
            srec = self.objs[op["src"]]
            try:
                fresh_parent = self.rebuild(op["src"], {})
            except Exception:
                fresh_parent = None
            rows = []
            for p_, n_ in world.cache_entries(srec.op):
                if p_ == "." and n_.startswith(("root_decomposition", "root_inv_decomposition")):
                    rows.append({"name": n_, "err": world.entry_error(srec.op, p_, n_, fresh_parent)})
            self.parent_roots_after_derive[i] = rows
        # reference: the same construction from fresh parents
        self.objs[oid] = rec  # temporarily, so that rebuild can find the spec
        self.created_at[oid] = i
        fresh_exc = None
        dense_exc = None
        D = None
        f = None
        env_ = {}
        try:
            f = self.rebuild(oid, env_)
        except Exception as e:
            fresh_exc = e
        if self.scen.get("measure_entries") and op["k"] == "derive" and env_.get(op["src"]) is not None:
            # what did the derivation leave on a *fresh* parent (add_low_rank / cat_rows compute and cache the parent's roots)?
            try:
                clean_parent = self.rebuild(op["src"], {})
                fp = env_[op["src"]]
                for p_, n_ in world.cache_entries(fp):
                    if p_ == ".":
                        e_ = world.entry_error(fp, p_, n_, clean_parent)
                        if e_ is not None:
                            self.fresh_parent_entry_errs[(i, n_)] = e_
            except Exception:
                pass
        if fresh_exc is None:
            # the reference dense matrix; a class whose to_dense() fails is C01's business, the object is just unusable here
            try:
                if isinstance(f, LinearOperator):
                    D = f.to_dense().detach().double()
                elif torch.is_tensor(f):
                    D = f.detach().double()
            except Exception as e:
                dense_exc = e
        seams.drain_log()
        what = op.get("recipe") or op.get("how")
        label = f"{oid} = " + (f"{op['recipe']}({_fmt(op['args'])})" if op["k"] == "build" else f"{op['src']}.{op['how']}({_fmt(op['args'])})")
        if hist_exc is not None or fresh_exc is not None or not isinstance(obj, LinearOperator) or D is None or D.dim() < 2 or D.numel() == 0:
            del self.objs[oid]
            outcome = (f"hist={type(hist_exc).__name__ if hist_exc else 'ok'} fresh={type(fresh_exc).__name__ if fresh_exc else 'ok'}"
                       + (f" to_dense={type(dense_exc).__name__}" if dense_exc else ""))
            self.log.add(i, "create-failed", oid, what, outcome)
            self.trace.append(f"#{i} {label} -> not created ({outcome})")
            self.stat("create_failed")
            if self.mode == "C12" and op["k"] == "derive" and hist_exc is not None and fresh_exc is None and dense_exc is None:
                # (a fresh parent that raises where the historied one succeeds is recorded, not flagged — like queries)
                src = self.objs[op["src"]]
                self.violate("C12", "derive-raises", src.cls, op["how"],
                             f"step {i}: {label}: raises {type(hist_exc).__name__}: {str(hist_exc)[:200]} on the historied parent; derivation from a fresh "
                             f"parent succeeds (parent caches: {[n for _, n in world.cache_entries(src.op)]})")
            elif hist_exc is None and fresh_exc is not None:
                self.stat("fresh_derive_raises_hist_ok")
            self.check_conservation(what)
            self.update_provenance(before, (i, op["k"], what))
            return
        rec.op = obj
        rec.D = D
        rec.cls = type(obj).__name__
        if op["k"] == "derive":
            srec_ = self.objs[op["src"]]
            rec.faulted = rec.faulted or srec_.faulted
            rec.jitter_taint = max(rec.jitter_taint, srec_.jitter_taint)
        rec.square = D.shape[-1] == D.shape[-2]
        rec.psd = _is_psd(D)
        if self.mode == "C13":
            try:
                rec.dense0 = obj.to_dense().detach().clone()
            except Exception:
                rec.dense0 = None
        self.log.add(i, "create", oid, what, rec.cls, list(D.shape), rec.psd)
        self.trace.append(f"#{i} {label} -> {rec.cls}{list(D.shape)}{'' if rec.psd else ' (not PSD)'}")
        self.stat("creates")
        self.stat("cls_" + rec.cls)
        if op["k"] == "derive":
            self.stat("derive_" + op["how"])
        after = self.update_provenance(before, (i, op["k"], what))
        if op["k"] == "derive" and obj is self.objs[op["src"]].op:
            # the derivation returned the parent itself (e.g. .mT of a symmetric structured operator): same object, same history
            for (o_, p_, n_), wv in list(self.prov.items()):
                if o_ == op["src"]:
                    self.prov[(oid, p_, n_)] = wv
        self.check_conservation(what, exempt=(oid,))
        # O2: every factorization transplanted onto the new object is judged like a query result
        if self.mode == "C12" and not self.violations:
            entries = [(p, n) for (o, p, n) in after if o == oid and p == "."]
            for _, name in sorted(entries):
                q = _query_for_cache_entry(name)
                if q is not None and rec.psd:
                    self.stat("o2_transplant_checks")
                    self.op_query(i, {"k": "query", "obj": oid, "q": q[0], "args": q[1], "auto": True})
                    if self.violations:
                        v = self.violations[0]
                        v["sig"][1] = "O2-" + v["sig"][1]
                        v["sig"][2] = f"{self.objs[op['src']].cls}.{op['how']}" if op["k"] == "derive" else v["sig"][2]
                        self.last_entries = getattr(self, "derive_entries", [])
                        break

    # ------------------------------------------------------------------------------------------ query
    def op_query(self, i, op):
        oid = op["obj"]
        if oid not in self.objs or not self.refs_ok(op.get("args", {})):
            self.log.add(i, "skip-query", oid)
            return
        rec = self.objs[oid]
        qname = op["q"]
        args = op.get("args", {})
        fn = QUERIES[qname]
        seed = self._seed(i, "q" + ("a" if op.get("auto") else ""))
        fault = op.get("fault")
        label = f"{oid}.{qname}({_fmt(args)})"
        qsig = qname + (f"[{args['method']}]" if args.get("method") else "") + ("[upper]" if args.get("upper") else "")

        # fingerprint (evidence): what state does this query meet?
        here = sorted((p, n) for (o, p, n) in self.prov if o == oid)
        foreign = [(p, n) for (p, n) in here if self.prov[(oid, p, n)][0] != i]
        fp = json.dumps([rec.cls, [f"{p}:{n}" for p, n in here], qsig, _settings_key()])
        import hashlib

        if foreign:
            self.stat("reach_query_meets_foreign_cache")
        if any(n.startswith("@_q_cache") for _, n in here):
            self.stat("reach_preconditioner_cache_present")
        if any(self.prov[(oid, p, n)][1] == "derive" for p, n in here if (oid, p, n) in self.prov):
            self.stat("reach_query_meets_transplanted_cache")
        fph = hashlib.blake2b(fp.encode(), digest_size=8).hexdigest()
        self.fingerprints.add(fph)
        if foreign or rec.faulted:
            self.nontrivial.add(fph)

        # ---- (a) fresh twin, in counting mode when a fault is requested
        env = {}
        fres = fexc = None
        ftrace = None
        seams.LINALG.reset()
        try:
            fobj = self.rebuild(oid, env)
        except Exception as e:  # cannot happen: creation succeeded before
            self.log.add(i, "fresh-rebuild-failed", oid, type(e).__name__)
            return

        def fget(x):
            if x in self.tensors:
                return self.fresh_tensor(x, env)
            return env[x] if x in env else self.rebuild(x, env)

        fcb = env.get("CB:" + oid)
        cb0 = fcb.count if fcb is not None else 0
        seams.RANDN.reseed(seed)
        seams.LINALG.reset()
        seams.drain_log()
        if self.mode == "C12" or fault:  # C13 needs the twin only as the counting pass of a faulted step
            if fault and fault["kind"] == "crash":
                seams.CRASH.start_trace()
            try:
                fres = fn(fobj, args, rec.D, fget)
            except Exception as e:
                fexc = e
            finally:
                if fault and fault["kind"] == "crash":
                    ftrace = seams.CRASH.stop_trace()
        fpaths = _paths(seams.drain_log())
        fcounts = dict(seams.LINALG.counts)
        fcb_n = (fcb.count - cb0) if fcb is not None else 0
        fdraws = len(seams.RANDN.draws)

        # ---- (b) the historied object, fault armed
        self.last_entries = [(p, n, list(self.prov.get((oid, p, n), (None, "?", "?")))) for p, n in world.cache_entries(rec.op)]
        armed = None
        fired = False
        before = self.cache_snapshot()
        seams.LINALG.reset()
        if fault:
            armed = self._arm(fault, rec, fcounts, fcb_n, ftrace)
        seams.RANDN.reseed(seed)
        hres = hexc = None
        try:
            hres = fn(rec.op, args, rec.D, self.get_live)
        except Exception as e:
            hexc = e
        finally:
            if fault:
                fired = self._disarm(fault, rec)
        hpaths = _paths(seams.drain_log())
        for p in hpaths:
            self.stat("path_" + p)
        if fault:
            self.stat(f"fault_{fault['kind']}_armed")
            if fired:
                self.stat(f"fault_{fault['kind']}_fired")
                rec.faulted = True
                taint = 0.0
                if fault["kind"] == "chol_info":
                    # an injected Cholesky failure makes psd_safe_cholesky add (and the operator cache) jitter: "as if the query
                    # completed" legitimately includes a factor of A + j I with j up to jitter * 10^(failed attempts - 1)
                    jit = world._get_setting("cholesky_jitter_double" if self.dtype == "float64" else "cholesky_jitter_float")
                    mt = world._get_setting("cholesky_max_tries")
                    k_ = max(1, min(int(fault.get("attempts", 1)), int(mt)))
                    taint = float(jit) * 10 ** (k_ - 1)
                    rec.jitter_taint = max(rec.jitter_taint, taint)
                for o2 in self.objs.values():  # parents / children share sub-operators
                    if o2 is not rec and _related(o2, rec):
                        o2.faulted = True
                        o2.jitter_taint = max(o2.jitter_taint, taint)
        self.update_provenance(before, (i, "query", qsig, qname, hres.err if hres is not None else ("exc" if hexc is not None else None),
                                        fres.err if fres is not None else ("exc" if fexc is not None else None)))
        self.stat("queries")
        self.stat("q_" + qname)

        # ---- (c) outcome + oracles
        hout = type(hexc).__name__ if hexc is not None else "ok"
        fout = type(fexc).__name__ if fexc is not None else "ok"
        herr = hres.err if hres is not None else None
        ferr = fres.err if fres is not None else None
        self.log.add(i, "query", oid, qsig, args, hout, fout, [tensor_sha(t) for t in (hres.tensors if hres else [])],
                     armed, fired, fdraws)
        self.trace.append(f"#{i} {label}{' [auto: transplanted cache entry]' if op.get('auto') else ''}"
                          f"{' FAULT ' + json.dumps(armed) + (' fired' if fired else ' not fired') if fault else ''}"
                          f" -> hist {hout}{'' if herr is None else f' err={herr:.3g}'} via {hpaths or '-'} | fresh {fout}"
                          f"{'' if ferr is None else f' err={ferr:.3g}'} via {fpaths or '-'}")
        if hres is not None:
            for ro in hres.ops:
                self.stat("returned_ops")
        if op.get("auto"):
            self.o2_results[(oid, qname)] = (herr, ferr)
        if self.mode == "C12":
            self.judge(i, op, rec, qsig, label, hres, hexc, fres, fexc, fault, fired, foreign)
            if not self.violations and hres is not None and fres is not None and not op.get("auto"):
                self.key_discipline(i, rec, qname, args, label, hres, fres)
        else:
            # C13 evidence: case = (method, class, argument position, layout of that argument, path, fault fired)
            import hashlib as _h

            ntens = 0
            for k_, v_ in args.items():
                if isinstance(v_, str) and v_ in self.tensors:
                    ntens += 1
                    case = (qname, rec.cls, k_, self.tensors[v_]["spec"]["layout"], tuple(hpaths), bool(fired))
                    hh = _h.blake2b(json.dumps(case).encode(), digest_size=8).hexdigest()
                    self.cases13.add(hh)
                    self.nontrivial13.add(hh)
            for t_ in _iter_refs(rec.spec.get("args", {})):
                if t_ in self.tensors:
                    ntens += 1
                    case = (qname, rec.cls, "defining-tensor", self.tensors[t_]["spec"]["layout"], tuple(hpaths), bool(fired))
                    hh = _h.blake2b(json.dumps(case).encode(), digest_size=8).hexdigest()
                    self.cases13.add(hh)
                    self.nontrivial13.add(hh)
            if ntens == 0:
                self.cases13.add(_h.blake2b(json.dumps((qname, rec.cls, "no-tensor")).encode(), digest_size=8).hexdigest())
            if hres is not None and not self.violations:
                for j_, t_ in enumerate(hres.tensors[:3]):
                    if torch.is_tensor(t_) and t_.numel() <= 4096 and len(self.returned) < 40:
                        self.track_tensor(f"result {j_} of {label} at step {i}", t_)
        self.check_conservation(qname)

    def judge(self, i, op, rec, qsig, label, hres, hexc, fres, fexc, fault, fired, foreign):
        # direct regime (Cholesky / symeig sized): forward functionals are exact to rounding.  Iterative regime (the matrix is
        # larger than max_cholesky_size, so Lanczos / CG with their 1e-6 jitter and random start vectors are the default): every
        # functional carries noise of the order cond * 1e-6
        direct = rec.D.shape[-1] <= world.S.max_cholesky_size.value()
        if op.get("args", {}).get("method") == "lanczos" or "lanczos" in (rec.spec.get("args", {}).get("root_decomp_method"), rec.spec.get("args", {}).get("root_inv_decomp_method")):
            direct = False  # an explicitly requested Lanczos factor (or an object derived through one) carries the iterative regime's noise
        floor = (FLOOR_INV if (op["q"] in INVERSE_QUERIES or not direct) else FLOOR)[self.dtype]
        ctx = f"caches met: {[f'{p}:{n}<-step{self.prov.get((rec.oid, p, n), ("?",))[0]}' for p, n in foreign][:8]}"
        if fault and fired:
            # a faulted query may raise anything; what it returns is still judged
            # a faulted query may raise anything, or return a result degraded by a designed fallback; only what
            # it leaves behind is judged (by every later query)
            self.stat("faulted_query_raised" if hexc is not None else "faulted_query_returned")
            return
        if hexc is not None and fexc is not None:
            self.stat("both_raise")
            return
        if hexc is not None and fres is not None and not (fres.err <= VACUOUS):
            self.stat("hist_raises_fresh_vacuous")  # the fresh copy's answer is garbage as well: nothing to compare
            return
        if hexc is not None:
            if isinstance(hexc, (HarnessError,)):
                raise hexc
            self.violate("C12", "hist-raises", rec.cls, qsig,
                         f"step {i}: {label} raises {type(hexc).__name__}: {str(hexc)[:200]} on the historied object; a fresh copy returns (err {fres.err:.3g}); {ctx}")
            return
        if fexc is not None:
            self.stat("fresh_raises_hist_ok")
            return
        if op["q"] in DIRECT_QUERIES and hres.tensors and fres.tensors and bool(torch.isfinite(fres.tensors[0]).all()):
            self.stat("direct_comparisons")
            hL, fL = hres.tensors[0].double(), fres.tensors[0].double()
            dd = world._rel(hL @ hL.mT, fL @ fL.mT) if hL.shape[:-1] == fL.shape[:-1] else float("inf")
            scale = float(torch.linalg.norm((fL @ fL.mT).reshape(-1))) / max(float(torch.linalg.norm(rec.D.double().reshape(-1))), 1e-30)
            dd = dd * min(scale, 1.0) if math.isfinite(dd) else dd  # measured relative to the matrix, not to a tiny approximation
            if not (dd <= DIRECT_LIM[self.dtype]):
                self.violate("C12", "direct", rec.cls, qsig,
                             f"step {i}: {label}: the historied object's answer differs from a fresh copy's by {dd:.3g} of the matrix norm "
                             f"(columns {hL.shape[-1]} vs {fL.shape[-1]}; error functionals {hres.err:.3g} vs {fres.err:.3g}; limit {DIRECT_LIM[self.dtype]:.3g}); {ctx}")
                return
        if math.isnan(fres.err) or math.isnan(hres.err):
            self.stat("unprobed")
            return
        if fres.err > VACUOUS:
            self.stat("vacuous")
            return
        self.stat("comparisons")
        if foreign or rec.faulted:
            self.stat("comparisons_nontrivial")
        if hres.shape_sig != fres.shape_sig:
            # recorded, not flagged: truncated Lanczos legitimately returns fewer columns, and some Lanczos paths squeeze a
            # leading batch dimension of size one on a *fresh* object too; a shape that does not fit the matrix makes the error
            # functional infinite and is caught below
            self.stat("shape_differs")
            if op["q"] not in SHAPE_FREE_QUERIES:
                # O7: queries whose result shape / dtype is a function of the operator alone (everything but the truncating
                # Lanczos-based factorizations) must have the fresh copy's signature: a factor transplanted from an operator
                # of another batch shape or dtype broadcasts / casts silently through every error functional
                self.violate("C12", "shape", rec.cls, qsig,
                             f"step {i}: {label}: result signature {hres.shape_sig} on the historied object vs {fres.shape_sig} on a fresh copy; {ctx}")
                return
        # exact regime: the fresh copy is exact, the historied object must be too (floor).  Approximate regime (the fresh
        # copy itself is inexact: truncated / jittered Lanczos, unconverged CG): errors of random approximations vary by
        # orders of magnitude between draws, so anything below the vacuity threshold or within 30x is accepted
        lim = max(floor, 30 * fres.err, VACUOUS if fres.err > floor else 0.0)
        if rec.jitter_taint:
            Dd = rec.D.double()
            n_ = Dd.shape[-1]
            if op["q"] in INVERSE_QUERIES:
                tau = rec.jitter_taint * self._cond(rec) / float(torch.linalg.matrix_norm(Dd, ord=2).max().clamp_min(1e-300))
            else:
                tau = rec.jitter_taint * math.sqrt(n_) / float(torch.linalg.matrix_norm(Dd).min().clamp_min(1e-300))
            lim = max(lim, 30 * tau)
        if not direct and op["q"] in INVERSE_QUERIES:
            # inverse functionals in the iterative regime: Lanczos noise (1e-6) is amplified by the squared condition number of
            # the (possibly concatenated / updated) matrix; cache-confusion defects still give O(1) errors
            lim = max(lim, 2e-2, 100 * fres.err, 3e-5 * self._cond(rec))
        if not direct:
            # every Lanczos-based factor is a factor of A + tj * (smallest Ritz value) * I: with a large tridiagonal_jitter setting
            # (1e-3) forward functionals are off by ~tj and inverse ones by ~tj * cond, on both sides and with different draws
            tj = float(world._get_setting("tridiagonal_jitter") or 0.0)
            lim = max(lim, 10 * tj * (self._cond(rec) if op["q"] in INVERSE_QUERIES else 1.0))
        if not (hres.err <= lim):
            self.violate("C12", "value", rec.cls, qsig,
                         f"step {i}: {label}: error functional {hres.err:.3g} on the historied object vs {fres.err:.3g} on a fresh copy "
                         f"(limit {lim:.3g}){' [' + hres.detail + ']' if hres.detail else ''}; {ctx}")

    def _measure(self, rec):
        try:
            fresh = self.rebuild(rec.oid, {})
        except Exception:
            fresh = None
        self._pre_entry_errors = {f"{p}:{n}": world.entry_error(rec.op, p, n, fresh) for p, n in world.cache_entries(rec.op)}

    def key_discipline(self, i, rec, qname, args, label, hres, fres):
        """O5 - distinct requests must not be answered from one cache entry: if two requests of the same query with different
        arguments, issued under the same settings, get bitwise identical answers on the historied object although fresh copies
        answer them differently, an entry was shared across keys (positional vs keyword, tensor arguments keyed by metadata,
        upper / method dropped from the key ...).  Works in the approximate regime too, where error functionals are vacuous."""
        def akey(a):
            out = {}
            for k_, v_ in sorted(a.items()):
                if isinstance(v_, str) and v_ in self.tensors:
                    out[k_] = "T:" + tensor_sha(self.tensors[v_]["view"])
                else:
                    out[k_] = v_
            return json.dumps(out, sort_keys=True, default=str)

        # identity of what was returned: the same operator object (or the same tensor storage) handed out for two requests.
        # Bitwise-equal but distinct objects are legitimate (e.g. an eigen-based root computed twice from the same spectrum).
        if hres.raw is None:
            return
        hd = frozenset([id(hres.raw)])
        fd = tuple(tensor_sha(t) for t in fres.tensors)
        self._keepalive.append(hres.raw)  # ids must not be recycled while they are in the log
        cur = (qname, akey(args), hd, fd, json.dumps(_settings_key()), label)
        log_ = self.qlog.setdefault(rec.oid, [])
        for prev in log_:
            if prev[0] == qname and prev[1] != cur[1] and prev[4] == cur[4] and (prev[2] & hd) and prev[3] != fd:
                self.stat("o5_checks_hit")
                self.violate("C12", "key-confusion", rec.cls, qname,
                             f"step {i}: {label} returns the very same object as the earlier, different request {prev[5]} on the historied "
                             f"object, although fresh copies answer the two requests differently (same settings): one cache entry serves two keys")
                return
        log_.append(cur)

    def _cond(self, rec):
        c = getattr(rec, "cond", None)
        if c is None:
            try:
                w_ = torch.linalg.eigvalsh(rec.D.double())
                c = float((w_[..., -1] / w_[..., 0].clamp_min(1e-300)).max())
            except Exception:
                c = 1.0
            rec.cond = c
        return c

    # ------------------------------------------------------------------------------------------ faults
    def _arm(self, fault, rec, fcounts, fcb_n, ftrace):
        kind = fault["kind"]
        u = fault["u"]
        if kind == "cb":
            n = fcb_n
            at = max(1, math.ceil(u * 1.1 * max(n, 1)))
            if rec.cb is None:
                return {"kind": "cb", "at": None}
            rec.cb.armed_at = rec.cb.count + at
            rec.cb.fired = False
            return {"kind": "cb", "at": at, "of": n}
        if kind == "chol_info":
            n = fcounts["cholesky_ex"]
            at = max(1, math.ceil(u * 1.1 * max(n, 1)))
            seams.LINALG.armed = {"fn": "cholesky_ex", "at": at, "attempts": fault.get("attempts", 1)}
            return {"kind": kind, "at": at, "of": n, "attempts": fault.get("attempts", 1)}
        if kind == "linalg_err":
            fn = fault["fn"]
            if fcounts.get(fn, 0) == 0:
                # the requested kernel is not used by this query: fall on one that is (deterministic in the fresh counts)
                cands = [k_ for k_ in sorted(fcounts) if fcounts[k_] > 0 and k_ != "cholesky_ex"]
                if cands:
                    fn = cands[min(len(cands) - 1, int(u * len(cands)))]
            n = fcounts[fn]
            at = max(1, math.ceil(u * 1.1 * max(n, 1)))
            seams.LINALG.armed = {"fn": fn, "at": at, "attempts": 1}
            return {"kind": kind, "fn": fn, "at": at, "of": n}
        if kind == "crash":
            tr = ftrace or []
            if not tr:
                return {"kind": kind, "at": None}
            # stratified by location: pick a distinct (file, line) first, then one of its occurrences
            locs = sorted(set(tr))
            li = min(len(locs) - 1, int(u * 1.1 * len(locs)))
            if u * 1.1 >= 1.0:
                return {"kind": kind, "at": None, "of": len(tr)}  # armed-but-never-fires control
            loc = locs[li]
            occ_n = sum(1 for x in tr if x == loc)
            occ = 1 + min(occ_n - 1, int(fault.get("v", 0.0) * occ_n))
            seams.CRASH.arm(loc[0], loc[1], occ)
            return {"kind": kind, "at": [loc[0], loc[1], occ], "of": len(tr), "locations": len(locs)}
        raise HarnessError(f"unknown fault {kind}")

    def _disarm(self, fault, rec):
        kind = fault["kind"]
        if kind == "cb":
            if rec.cb is None:
                return False
            f = rec.cb.fired
            rec.cb.armed_at = None
            rec.cb.fired = False
            return f
        if kind in ("chol_info", "linalg_err"):
            f = seams.LINALG.fired > 0
            seams.LINALG.armed = None
            seams.LINALG.fired = 0
            return f
        if kind == "crash":
            f = seams.CRASH.fired_at is not None
            seams.CRASH.disarm()
            seams.CRASH.fired_at = None
            return f
        return False


# ----------------------------------------------------------------------------------------------------
# helpers


def _iter_refs(args):
    for v in args.values():
        if isinstance(v, str) and (v[:1] in ("t", "o") and v[1:].isdigit()):
            yield v
        elif isinstance(v, list):
            for x in v:
                if isinstance(x, str) and (x[:1] in ("t", "o") and x[1:].isdigit()):
                    yield x


def _fmt(args):
    return ", ".join(f"{k}={v}" for k, v in args.items())


def _paths(records):
    out = []
    for r in records:
        for key, tag in (("Running CG", "CG"), ("Running Cholesky", "Chol"), ("Running Lanczos", "Lanczos"), ("Running symeig", "symeig"),
                         ("Running Pivoted Cholesky", "PivChol"), ("Running MINRES", "MINRES"), ("Running svd", "svd"), ("CIQ", "CIQ")):
            if key in r and tag not in out:
                out.append(tag)
    return out


def _settings_key():
    snap = world.settings_snapshot()
    return [f"{k}={v}" for k, v in sorted(snap.items()) if v != world._PRISTINE.get(k)]


def _related(a, b):
    ia = {id(o) for _, o in world.sub_operators(a.op)}
    ib = {id(o) for _, o in world.sub_operators(b.op)}
    return bool(ia & ib)


def _alias_view(t, how):
    try:
        if how == "self":
            return t
        if how == "row0":
            return t[..., 0, :]
        if how == "col0":
            return t[..., :, :1]
        if how == "cols2":
            return t[..., :, : min(2, t.shape[-1])]
        if how == "diag":
            return t.diagonal(dim1=-2, dim2=-1)
        if how == "mT":
            return t.mT
    except Exception:
        return None
    return None


def _query_for_cache_entry(name):
    """Map a memoize-cache entry name such as 'root_decomposition(method='lanczos')' to (query, args)."""
    import re

    m = re.match(r"^(\w+)\((.*)\)$", name)
    if not m:
        return None
    q, inner = m.group(1), m.group(2)
    args = {}
    if inner:
        for part in inner.split(","):
            if "=" in part:
                k, v = part.split("=", 1)
                v = v.strip()
                if v in ("True", "False"):
                    args[k.strip()] = v == "True"
                elif v == "None":
                    pass
                elif v.startswith("'"):
                    args[k.strip()] = v.strip("'")
                else:
                    return None
            else:
                return None
    if q in ("root_decomposition", "root_inv_decomposition", "diagonalization"):
        return q, args
    if q == "cholesky":
        return "cholesky", {"upper": bool(args.get("upper", False))}
    if q == "svd":
        return "svd", {}
    return None
