"""C12 — cached results are transparent: answers do not depend on query history (see histsim.py)."""
from sim import histcheck

PROP = "C12"
ASSUMPTIONS = [
    "the library itself on an empty history (a fresh rebuild from cloned literals, same settings, same randn stream) is the reference model",
    "results are compared through uniqueness-free error functionals against the fresh copy's dense matrix; tolerance measured on the fresh "
    "copy: err(hist) <= max(1e-4 [1e-2 for float32], 10*err(fresh)); comparisons with err(fresh) > 1e-2 are counted as vacuous",
    "a faulted query may raise anything; what it returns, and every later un-faulted query, is judged against copies that never saw the fault",
    "a fresh copy that raises where the historied object returns is recorded, not flagged",
    "matrices are at most 12x12, histories at most 14 generated steps",
]
SELFCHECK_EVERY = {"quick": 8, "thorough": 32}

globals().update(histcheck.make_interface(PROP))
