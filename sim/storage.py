"""Caller-owned tensor layouts and the storage-conservation monitor (shared by C13, C16, C12 worlds)."""
from __future__ import annotations

import hashlib

import torch

DTYPES = {"float64": torch.float64, "float32": torch.float32, "int64": torch.int64, "bool": torch.bool}
GUARD = 7.25  # sentinel written into guard zones of sliced layouts

LAYOUTS = ["contig", "transposed", "expanded", "slice", "permuted"]


def make_layout(data: torch.Tensor, layout: str):
    """Return (view, base) where `view` has exactly the values of `data` and `base` owns the storage.

    contig      : plain contiguous tensor
    transposed  : .mT view of a contiguous base holding the transpose (ndim >= 2)
    expanded    : stride-0 expansion along the leading dim (only valid when all leading slices are equal)
                  or along the last dim (column replicated); falls back to contig when data does not allow it
    slice       : interior slice of a larger base with guard zones on both sides of the last two dims
    permuted    : non-contiguous permutation: base stores the last dim first
    """
    data = data.clone()
    if layout == "contig" or data.ndim == 0:
        return data, data
    if layout == "transposed":
        if data.ndim < 2:
            base = torch.empty(data.numel() * 2, dtype=data.dtype)
            base.fill_(GUARD) if data.dtype.is_floating_point else base.fill_(0)
            view = base[::2]
            base[::2] = data
            return view, base
        base = data.mT.contiguous()
        return base.mT, base
    if layout == "expanded":
        if data.ndim >= 1 and data.shape[0] > 1 and all(torch.equal(data[0], data[i]) for i in range(1, data.shape[0])):
            base = data[:1].clone()
            return base.expand(data.shape), base
        if data.ndim >= 2 and data.shape[-1] > 1 and all(torch.equal(data[..., 0], data[..., i]) for i in range(1, data.shape[-1])):
            base = data[..., :1].clone()
            return base.expand(data.shape), base
        return data, data
    if layout == "slice":
        if data.ndim == 1:
            base = torch.empty(data.shape[0] + 4, dtype=data.dtype)
            base.fill_(GUARD) if data.dtype.is_floating_point else base.fill_(0)
            base[2:-2] = data
            return base[2:-2], base
        shape = list(data.shape)
        shape[-1] += 3
        shape[-2] += 2
        base = torch.empty(shape, dtype=data.dtype)
        base.fill_(GUARD) if data.dtype.is_floating_point else base.fill_(0)
        base[..., 1:-1, 2:-1] = data
        return base[..., 1:-1, 2:-1], base
    if layout == "permuted":
        if data.ndim < 2:
            return data, data
        perm = [data.ndim - 1] + list(range(data.ndim - 1))
        base = data.permute(perm).contiguous()
        inv = [perm.index(i) for i in range(data.ndim)]
        return base.permute(inv), base
    raise ValueError(layout)


def storage_bytes(t: torch.Tensor) -> bytes:
    st = t.untyped_storage()
    n = st.nbytes()
    if n == 0:
        return b""
    flat = torch.empty(0, dtype=torch.uint8)
    flat.set_(st, 0, (n,), (1,))
    return flat.numpy().tobytes()


class Snap:
    __slots__ = ("version", "digest", "shape", "stride", "offset", "dtype", "requires_grad", "nbytes", "raw")

    def __init__(self, t: torch.Tensor, keep_raw=False):
        self.version = t._version
        raw = storage_bytes(t)
        self.digest = hashlib.blake2b(raw, digest_size=12).digest()
        self.raw = raw if keep_raw else None
        self.nbytes = len(raw)
        self.shape = tuple(t.shape)
        self.stride = tuple(t.stride())
        self.offset = t.storage_offset()
        self.dtype = t.dtype
        self.requires_grad = t.requires_grad

    def diff(self, t: torch.Tensor):
        """Return a list of human-readable differences between the snapshot and the tensor now."""
        out = []
        if t._version != self.version:
            out.append(f"_version {self.version} -> {t._version}")
        raw = storage_bytes(t)
        if len(raw) != self.nbytes:
            out.append(f"storage size {self.nbytes} -> {len(raw)} bytes")
        elif hashlib.blake2b(raw, digest_size=12).digest() != self.digest:
            detail = ""
            if self.raw is not None:
                nd = sum(1 for a, b in zip(raw, self.raw) if a != b)
                first = next(i for i, (a, b) in enumerate(zip(raw, self.raw)) if a != b)
                detail = f" ({nd} bytes differ, first at byte {first})"
            out.append("storage bytes changed" + detail)
        if tuple(t.shape) != self.shape:
            out.append(f"shape {self.shape} -> {tuple(t.shape)}")
        if tuple(t.stride()) != self.stride:
            out.append(f"stride {self.stride} -> {tuple(t.stride())}")
        if t.storage_offset() != self.offset:
            out.append(f"offset {self.offset} -> {t.storage_offset()}")
        if t.dtype != self.dtype:
            out.append(f"dtype {self.dtype} -> {t.dtype}")
        if t.requires_grad != self.requires_grad:
            out.append(f"requires_grad {self.requires_grad} -> {t.requires_grad}")
        return out


def tolist_exact(t: torch.Tensor):
    """JSON-able nested list that round-trips exactly (float32 values are exactly representable as float64)."""
    if t.dtype.is_floating_point:
        return t.double().tolist()
    return t.tolist()


def fromlist(data, dtype: str):
    dt = DTYPES[dtype]
    if dt.is_floating_point:
        return torch.tensor(data, dtype=torch.float64).to(dt)
    return torch.tensor(data, dtype=dt)
