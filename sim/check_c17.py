"""C17 — settings contexts are properly scoped and never leak.

Event-history simulation: 1..3 generator *tasks*, each interpreting a generated program with real `with`
statements over real settings context objects; a seeded scheduler decides which task advances at every
yield; faults are exceptions raised at arbitrary depth (simulated, or a real NotPSDError from the library)
and cancellation (throw / close) of a task suspended inside nested blocks.  Oracle: a slot model
(slot -> value; per context instance a stack of saved values), compared with the public readers of every
setting class after every event.
"""
from __future__ import annotations

import json
import random
import warnings

import torch

import linear_operator
from linear_operator import beta_features as B
from linear_operator import settings as S
from sim.engine import EventLog, HarnessError, sub_seed

ASSUMPTIONS = [
    "settings are process-global by design: tasks own disjoint slot sets; interleaving the same slot across tasks is not generated",
    "flag values are booleans, scalar values are non-None, None in a per-dtype context means 'leave that slot alone'",
    "slot set discovered by introspection of linear_operator.settings and linear_operator.beta_features",
]
SELFCHECK_EVERY = {"quick": 4, "thorough": 16}

_BASES = (S._feature_flag, S._value_context, S._dtype_value_context)
DT = {"float": torch.float, "double": torch.double, "half": torch.half}
DTATTR = {"float": "_global_float_value", "double": "_global_double_value", "half": "_global_half_value"}


# ----------------------------------------------------------------------------------------------------
# slot discovery


def _discover():
    classes = {}
    for mod, prefix in ((S, "settings"), (B, "beta_features")):
        for name, obj in sorted(vars(mod).items()):
            if isinstance(obj, type) and obj.__module__ == mod.__name__ and issubclass(obj, _BASES) and obj not in _BASES:
                classes[f"{prefix}.{name}"] = obj
    return classes


CLASSES = _discover()
COMPOSITES = {"settings.fast_computations": S.fast_computations, "settings.linalg_dtypes": S.linalg_dtypes}
UNKNOWN_COMPOSITES = sorted(
    name
    for name, obj in vars(S).items()
    if isinstance(obj, type) and obj.__module__ == S.__name__ and hasattr(obj, "__enter__")
    and not issubclass(obj, _BASES) and ("settings." + name) not in COMPOSITES
)


def kind_of(cname):
    if cname in COMPOSITES:
        return "composite"
    c = CLASSES[cname]
    if issubclass(c, S._feature_flag):
        return "flag"
    if issubclass(c, S._value_context):
        return "value"
    return "dtype"


def slots_of(cname):
    k = kind_of(cname)
    if k == "flag":
        return [f"{cname}#_state"]
    if k == "value":
        return [f"{cname}#_global_value"]
    if k == "dtype":
        return [f"{cname}#{DTATTR[d]}" for d in ("float", "double", "half")]
    if cname == "settings.fast_computations":
        return ["settings._fast_covar_root_decomposition#_state", "settings._fast_log_prob#_state", "settings._fast_solves#_state"]
    if cname == "settings.linalg_dtypes":
        return ["settings._linalg_dtype_symeig#_global_value", "settings._linalg_dtype_cholesky#_global_value"]
    raise KeyError(cname)


ALL_SLOTS = sorted({s for c in CLASSES for s in slots_of(c)})


def _raw_get(slot):
    cname, attr = slot.split("#")
    return getattr(CLASSES[cname], attr)


def _raw_set(slot, v):
    cname, attr = slot.split("#")
    setattr(CLASSES[cname], attr, v)


IMPORT_VALUES = {s: _raw_get(s) for s in ALL_SLOTS}

# groups of classes that must be owned by one task because they share slots
_GROUPS = []
_used = set()
for comp in sorted(COMPOSITES):
    members = [comp] + sorted({s.split("#")[0] for s in slots_of(comp)})
    _GROUPS.append(members)
    _used.update(members)
for c in sorted(CLASSES):
    if c not in _used:
        _GROUPS.append([c])


# import-time ownership: most setting classes do not define their slot themselves but inherit the (unset) slot of their base
# class until the first write.  The pristine state must reproduce that - writing every slot onto its class would hide a
# setting that shares a slot with another one through inheritance (seeded change c17-s6)
IMPORT_OWN = {s: (s.split("#")[1] in CLASSES[s.split("#")[0]].__dict__) for s in ALL_SLOTS}
_BASES = [b for b in (S._feature_flag, S._value_context, S._dtype_value_context)]
IMPORT_BASE_VALUES = {(b, a): getattr(b, a) for b in _BASES for a in ("_state", "_global_value", "_global_float_value", "_global_double_value", "_global_half_value")
                      if a in b.__dict__}


def restore_pristine():
    for (b, a), v in IMPORT_BASE_VALUES.items():
        if getattr(b, a) is not v:
            setattr(b, a, v)
    for s, v in IMPORT_VALUES.items():
        cname, attr = s.split("#")
        cls = CLASSES[cname]
        if not IMPORT_OWN[s]:
            if attr in cls.__dict__:
                delattr(cls, attr)
            if _raw_get(s) is v or _raw_get(s) == v:
                continue
        _raw_set(s, v)
    S.deterministic_probes.probe_vectors = None


# ----------------------------------------------------------------------------------------------------
# value encoding (JSON <-> python)


def enc(v):
    if isinstance(v, torch.dtype):
        return {"dtype": str(v)}
    return v


def dec(v):
    if isinstance(v, dict) and "dtype" in v:
        return getattr(torch, v["dtype"].split(".")[1])
    return v


def same(a, b):
    if isinstance(a, torch.dtype) or isinstance(b, torch.dtype):
        return a is b
    return type(a) is type(b) and a == b


# ----------------------------------------------------------------------------------------------------
# context construction + what a context sets (the reference model's view)


def build_ctx(cname, args):
    args = {k: dec(v) for k, v in args.items()}
    if cname in COMPOSITES:
        return COMPOSITES[cname](**args)
    k = kind_of(cname)
    cls = CLASSES[cname]
    if k == "flag":
        return cls(args["state"]) if "state" in args else cls()
    if k == "value":
        return cls(args["value"])
    return cls(**args)


def ctx_sets(cname, args):
    """list of (slot, value) a context of class cname constructed with args installs on entry."""
    args = {k: dec(v) for k, v in args.items()}
    k = kind_of(cname)
    if k == "flag":
        return [(slots_of(cname)[0], args.get("state", True))]
    if k == "value":
        return [(slots_of(cname)[0], args["value"])]
    if k == "dtype":
        out = []
        for d in ("float", "double", "half"):
            v = args.get(f"{d}_value")
            if v is not None:
                out.append((f"{cname}#{DTATTR[d]}", v))
        return out
    if cname == "settings.fast_computations":
        sl = slots_of(cname)
        return [(sl[0], args.get("covar_root_decomposition", True)), (sl[1], args.get("log_prob", True)),
                (sl[2], args.get("solves", True))]
    if cname == "settings.linalg_dtypes":
        sl = slots_of(cname)
        default = args.get("default", torch.double)
        sy = args.get("symeig")
        ch = args.get("cholesky")
        return [(sl[0], default if sy is None else sy), (sl[1], default if ch is None else ch)]
    raise KeyError(cname)


class Model:
    def __init__(self):
        self.v = dict(IMPORT_VALUES)
        self.ctx = {}

    def construct(self, cid, cname, args):
        self.ctx[cid] = {"sets": ctx_sets(cname, args), "stack": []}

    def enter(self, cid):
        c = self.ctx[cid]
        c["stack"].append({s: self.v[s] for s, _ in c["sets"]})
        for s, val in c["sets"]:
            self.v[s] = val

    def exit(self, cid):
        c = self.ctx[cid]
        self.v.update(c["stack"].pop())


def read_all():
    """Read every slot through the public readers only. Returns (values by slot, reader inconsistencies)."""
    out = {}
    bad = []
    for cname, cls in CLASSES.items():
        k = kind_of(cname)
        if k == "flag":
            on, off, isdef = cls.on(), cls.off(), cls.is_default()
            out[slots_of(cname)[0]] = (on, isdef)
            if off != (not on):
                bad.append(f"{cname}: off()={off!r} but on()={on!r}")
        elif k == "value":
            out[slots_of(cname)[0]] = cls.value()
        else:
            for d in ("float", "double", "half"):
                v = cls.value(DT[d])
                out[f"{cname}#{DTATTR[d]}"] = v
                v2 = cls.value(torch.empty(0, dtype=DT[d]))
                if not same(v, v2):
                    bad.append(f"{cname}: value({d} dtype)={v!r} but value({d} tensor)={v2!r}")
    return out, bad


def model_view(model):
    out = {}
    for cname, cls in CLASSES.items():
        k = kind_of(cname)
        if k == "flag":
            s = slots_of(cname)[0]
            st = model.v[s]
            out[s] = ((cls._default if st is None else st), st is None)
        else:
            for s in slots_of(cname):
                out[s] = model.v[s]
    return out


def _eq_view(a, b):
    if isinstance(a, tuple):
        return isinstance(b, tuple) and same(a[0], b[0]) and a[1] == b[1]
    return same(a, b)


# ----------------------------------------------------------------------------------------------------
# computes: library calls whose outcome reveals the value in force, with an independent prediction


class SimExc(RuntimeError):
    pass


class SimCancel(BaseException):
    pass


def _compute_chol_jitter(model, which):
    from linear_operator.utils.cholesky import psd_safe_cholesky

    dt = DT[which]
    j = model.v[f"settings.cholesky_jitter#{DTATTR[which]}"]
    mt = model.v["settings.cholesky_max_tries#_global_value"]
    if not isinstance(j, float) or not (1e-9 <= j <= 1e-1) or not isinstance(mt, int) or not (1 <= mt <= 6):
        return None
    if model.v["settings.trace_mode#_state"]:
        return None
    A = torch.zeros(2, 2, dtype=dt)
    with warnings.catch_warnings(record=True) as w:
        warnings.simplefilter("always")
        L = psd_safe_cholesky(A)
    got = float(L[0, 0].double() ** 2)
    exp = float(torch.tensor(j, dtype=dt).double())
    ok = abs(got - exp) <= 1e-4 * exp and len(w) == 1
    return ok, f"psd_safe_cholesky(zeros,{which}) added jitter {got:.6g} with {len(w)} warnings, model predicts {exp:.6g}, 1 warning"


def _compute_max_tries(model):
    from linear_operator.utils.cholesky import psd_safe_cholesky
    from linear_operator.utils.errors import NotPSDError

    mt = model.v["settings.cholesky_max_tries#_global_value"]
    j = model.v["settings.cholesky_jitter#_global_double_value"]
    if not isinstance(mt, int) or not (1 <= mt <= 6) or not isinstance(j, float) or not (1e-9 <= j <= 1e-1):
        return None
    if model.v["settings.trace_mode#_state"]:
        return None
    A = -torch.eye(2, dtype=torch.double) * 1e6
    raised = False
    with warnings.catch_warnings(record=True) as w:
        warnings.simplefilter("always")
        try:
            psd_safe_cholesky(A)
        except NotPSDError:
            raised = True
    ok = raised and len(w) == mt
    return ok, f"psd_safe_cholesky(-1e6 I): raised={raised}, {len(w)} retries, model predicts {mt}"


def _compute_root_method(model):
    from linear_operator.operators import DenseLinearOperator

    mcs = model.v["settings.max_cholesky_size#_global_value"]
    if not isinstance(mcs, int):
        return None
    st = model.v["settings._fast_covar_root_decomposition#_state"]
    fast_on = S._fast_covar_root_decomposition._default if st is None else st
    n = 5
    got = DenseLinearOperator(torch.eye(n, dtype=torch.double))._choose_root_method()
    exp = "cholesky" if (n <= mcs or not fast_on) else "lanczos"
    return got == exp, f"_choose_root_method()={got}, model predicts {exp} (max_cholesky_size={mcs}, fast root={fast_on})"


def _compute_cg_iters(model):
    from linear_operator.utils.linear_cg import linear_cg

    mi = model.v["settings.max_cg_iterations#_global_value"]
    tol = model.v["settings.cg_tolerance#_global_value"]
    if not isinstance(mi, int) or not (1 <= mi <= 12):
        return None
    if model.v["settings.terminate_cg_by_size#_state"]:
        return None
    if not isinstance(tol, (int, float)):
        return None
    n = 16
    A = torch.diag(torch.logspace(0, 6, n, dtype=torch.double))
    count = [0]

    def mm(x):
        count[0] += 1
        return A @ x

    rhs = torch.ones(n, 1, dtype=torch.double)
    with warnings.catch_warnings(record=True):
        warnings.simplefilter("always")
        linear_cg(mm, rhs, tolerance=1e-30, max_tridiag_iter=1)
    # one matmul for the initial residual + one per iteration, iterations capped by max_cg_iterations
    ok = count[0] == mi + 1
    return ok, f"linear_cg made {count[0]} matmuls, model predicts {mi + 1} (max_cg_iterations={mi})"


COMPUTES = {
    "chol_jitter_float": lambda m: _compute_chol_jitter(m, "float"),
    "chol_jitter_double": lambda m: _compute_chol_jitter(m, "double"),
    "max_tries": _compute_max_tries,
    "root_method": _compute_root_method,
    "cg_iters": _compute_cg_iters,
}


def baseline_compute():
    """A fixed computation under whatever settings are in force; compared before the first and after the
    last event of a run (bitwise)."""
    from linear_operator.operators import DenseLinearOperator

    g = torch.Generator().manual_seed(5)
    X = torch.randn(6, 6, dtype=torch.double, generator=g)
    A = X @ X.T + 0.5 * torch.eye(6, dtype=torch.double)
    op = DenseLinearOperator(A)
    rhs = torch.randn(6, 2, dtype=torch.double, generator=g)
    with warnings.catch_warnings(record=True):
        warnings.simplefilter("always")
        sol = op.solve(rhs)
        root = op.root_decomposition().to_dense()
        sing = torch.linalg.cholesky(DenseLinearOperator(torch.ones(3, 3, dtype=torch.float)).add_jitter().to_dense())
    return [sol, root, sing]


# ----------------------------------------------------------------------------------------------------
# execution


class Exec:
    """Executes a scenario (tasks, schedule, cancels) and records events + violations."""

    def __init__(self, scen):
        self.scen = scen
        self.model = Model()
        self.log = EventLog(scen.get("run_seed"))
        self.violations = []
        self.trace = []
        self.events = []  # abstract event kinds for case keys
        self.cid = 0
        self.nontrivial = set()
        self.stats = {"events": 0, "exc_exits": 0, "cancel_throw": 0, "cancel_close": 0, "lib_exc": 0, "prebuilt_enter": 0,
                      "reuse_enter": 0, "self_nest": 0, "unset_prev": 0, "cross_task_nonlifo": 0, "computes": 0,
                      "computes_skipped": 0, "yields": 0, "max_depth": 0}
        self.active = []  # global list of (task, cid) currently entered, in entry order
        self.stop = False

    # -- oracle ------------------------------------------------------------------------------------
    def violate(self, kind, slot_kind, ev_kind, detail):
        if not self.violations:
            self.violations.append({"sig": ["C17", kind, slot_kind, ev_kind], "detail": detail})
        self.stop = True

    def check(self, ev_kind, who):
        self.stats["events"] += 1
        actual, bad = read_all()
        exp = model_view(self.model)
        self.log.add("ev", self.stats["events"], who, ev_kind, [[k, enc(v) if not isinstance(v, tuple) else list(v)] for k, v in sorted(actual.items())
                                                                 if not _eq_view(v, _IMPORT_VIEW[k])])
        if bad:
            self.violate("reader-inconsistent", "n/a", ev_kind, bad[0])
            return
        for s in ALL_SLOTS:
            if not _eq_view(actual[s], exp[s]):
                cname = s.split("#")[0]
                self.violate("slot-mismatch", kind_of(cname), ev_kind,
                             f"after event #{self.stats['events']} ({who} {ev_kind}): {s} reads {actual[s]!r}, model says {exp[s]!r}")
                return

    # -- interpreter ------------------------------------------------------------------------------
    def run_task(self, t, prog):
        env = {}
        yield from self.run_body(t, prog, env, 0)

    def run_body(self, t, body, env, depth):
        for st in body:
            if self.stop:
                return
            yield from self.run_stmt(t, st, env, depth)

    def run_stmt(self, t, st, env, depth):
        k = st["k"]
        who = f"task{t}"
        if k == "construct":
            ctx = build_ctx(st["cls"], st["args"])
            self.cid += 1
            cid = self.cid
            self.model.construct(cid, st["cls"], st["args"])
            env[st["var"]] = (ctx, cid, st["cls"])
            self.trace.append(f"{who}: {st['var']} = {st['cls']}({_fmt_args(st['args'])})")
            self.events.append(("construct", kind_of(st["cls"])))
            self.check("construct", who)
        elif k == "with":
            if "var" in st:
                if st["var"] not in env:
                    self.log.add("skip", who, "with", st["var"])
                    return
                ctx, cid, cname = env[st["var"]]
                prebuilt = True
            else:
                ctx = build_ctx(st["cls"], st["args"])
                self.cid += 1
                cid = self.cid
                cname = st["cls"]
                self.model.construct(cid, cname, st["args"])
                prebuilt = False
            label = st.get("var") or f"{cname}({_fmt_args(st['args'])})"
            m = self.model.ctx[cid]
            if prebuilt:
                self.stats["prebuilt_enter"] += 1
                self.nontrivial.add("prebuilt")
                if m.get("entered_before"):
                    self.stats["reuse_enter"] += 1
                    self.nontrivial.add("reuse")
                if m["stack"]:
                    self.stats["self_nest"] += 1
                    self.nontrivial.add("self-nest")
            m["entered_before"] = True
            if any(self.model.v[s] is None for s, _ in m["sets"]):
                self.stats["unset_prev"] += 1
                self.nontrivial.add("unset-prev")
            self.stats["max_depth"] = max(self.stats["max_depth"], depth + 1)
            entered = False
            try:
                with ctx:
                    entered = True
                    self.model.enter(cid)
                    self.active.append((t, cid))
                    self.trace.append(f"{who}: {'  ' * depth}with {label}:")
                    self.events.append(("enter-prebuilt" if prebuilt else "enter", kind_of(cname)))
                    self.check("enter", who)
                    yield from self.run_body(t, st.get("body", []), env, depth + 1)
            except BaseException as e:
                if entered:
                    self._exited(t, cid)
                    self.stats["exc_exits"] += 1
                    self.nontrivial.add("exc-exit")
                    self.trace.append(f"{who}: {'  ' * depth}exit {label} by {type(e).__name__}")
                    self.events.append(("exit-exc", kind_of(cname)))
                    self.check("exit-exc", who)
                raise
            else:
                self._exited(t, cid)
                self.trace.append(f"{who}: {'  ' * depth}exit {label}")
                self.events.append(("exit", kind_of(cname)))
                self.check("exit", who)
                pend = env.get("__pending_exc__")
                if pend is not None and pend[1] > depth:
                    # an exception raised inside this block did not come out of it
                    self.violate("exception-swallowed", kind_of(cname), "exit",
                                 f"exception raised inside `with {label}` was swallowed by __exit__")
        elif k == "try":
            try:
                yield from self.run_body(t, st.get("body", []), env, depth + 1)
            except (SimExc, linear_operator.utils.errors.NotPSDError) as e:
                pend = env.pop("__pending_exc__", None)
                if pend is None or pend[0] is not e:
                    self.violate("exception-identity", "n/a", "catch", f"caught {e!r}, expected the raised object")
                self.trace.append(f"{who}: {'  ' * depth}caught {type(e).__name__}")
                self.events.append(("catch", "n/a"))
                self.check("catch", who)
            else:
                env.pop("__pending_exc__", None)
        elif k == "raise":
            self.events.append(("raise-" + st["kind"], "n/a"))
            if st["kind"] == "lib":
                from linear_operator.utils.cholesky import psd_safe_cholesky

                self.stats["lib_exc"] += 1
                try:
                    with warnings.catch_warnings(record=True):
                        warnings.simplefilter("always")
                        psd_safe_cholesky(-torch.eye(2, dtype=torch.double), max_tries=1)
                except linear_operator.utils.errors.NotPSDError as e:
                    env["__pending_exc__"] = (e, depth)
                    self.trace.append(f"{who}: {'  ' * depth}library raises NotPSDError")
                    raise
                return
            e = SimExc(f"sim-{self.stats['events']}")
            env["__pending_exc__"] = (e, depth)
            self.trace.append(f"{who}: {'  ' * depth}raise SimExc")
            raise e
        elif k == "yield":
            self.stats["yields"] += 1
            self.events.append(("yield", "n/a"))
            yield
        elif k == "read":
            self.check("read", who)
        elif k == "compute":
            fn = COMPUTES[st["what"]]
            r = fn(self.model)
            if r is None:
                self.stats["computes_skipped"] += 1
                self.log.add("compute-skip", who, st["what"])
            else:
                self.stats["computes"] += 1
                ok, msg = r
                self.log.add("compute", who, st["what"], ok, msg)
                self.trace.append(f"{who}: {'  ' * depth}compute {st['what']}: {msg}")
                self.events.append(("compute", st["what"]))
                if not ok:
                    self.violate("compute-mismatch", st["what"], "compute", msg)
                self.check("compute", who)
        else:
            raise HarnessError(f"unknown stmt {k}")

    def _exited(self, t, cid):
        self.model.exit(cid)
        idx = max(i for i, a in enumerate(self.active) if a == (t, cid))
        if idx != len(self.active) - 1:
            self.stats["cross_task_nonlifo"] += 1
            self.nontrivial.add("cross-task-nonlifo")
        del self.active[idx]

    # -- scheduler --------------------------------------------------------------------------------
    def run(self):
        scen = self.scen
        restore_pristine()
        with warnings.catch_warnings(record=True):
            warnings.simplefilter("always")
            base0 = baseline_compute()
            self.check("start", "sim")
            tasks = {t: self.run_task(t, tk["program"]) for t, tk in enumerate(scen["tasks"])}
            live = sorted(tasks)
            schedule = list(scen.get("schedule", []))
            cancels = {c["at"]: c for c in scen.get("cancels", [])}
            decision = 0
            while live and not self.stop:
                choice = schedule[decision] if decision < len(schedule) else None
                t = choice if choice in live else live[0]
                c = cancels.get(decision)
                decision += 1
                gen = tasks[t]
                try:
                    if c is not None and c["task"] == t and _started(gen):
                        if c["mode"] == "throw":
                            self.stats["cancel_throw"] += 1
                            self.nontrivial.add("cancel")
                            self.trace.append(f"sim: cancel task{t} (throw)")
                            self.log.add("cancel", t, "throw")
                            exc = SimCancel()
                            try:
                                gen.throw(exc)
                            except SimCancel as e2:
                                if e2 is not exc:
                                    self.violate("exception-identity", "n/a", "cancel", "cancel exception replaced")
                                live.remove(t)
                            except StopIteration:
                                self.violate("exception-swallowed", "n/a", "cancel", f"task{t} swallowed a cancellation")
                                live.remove(t)
                            else:
                                self.violate("exception-swallowed", "n/a", "cancel", f"task{t} survived a cancellation")
                                live.remove(t)
                        else:
                            self.stats["cancel_close"] += 1
                            self.nontrivial.add("cancel")
                            self.trace.append(f"sim: cancel task{t} (close)")
                            self.log.add("cancel", t, "close")
                            gen.close()
                            live.remove(t)
                        continue
                    self.log.add("sched", decision, t)
                    next(gen)
                except StopIteration:
                    live.remove(t)
                except (SimExc, linear_operator.utils.errors.NotPSDError) as e:
                    # uncaught exception ends the task (all its blocks have unwound)
                    self.trace.append(f"sim: task{t} ended by uncaught {type(e).__name__}")
                    self.log.add("task-exc", t, type(e).__name__)
                    live.remove(t)
            if not self.stop:
                # all tasks done: every slot back to its import-time value
                actual, _ = read_all()
                for s in ALL_SLOTS:
                    if not _eq_view(actual[s], _IMPORT_VIEW[s]):
                        self.violate("final-state", kind_of(s.split("#")[0]), "end",
                                     f"after all tasks finished {s} reads {actual[s]!r}, import-time value {_IMPORT_VIEW[s]!r}")
                        break
                if not self.stop and S.deterministic_probes.probe_vectors is not None:
                    self.violate("probe-cache", "flag", "end", "deterministic_probes.probe_vectors survived the run")
            if not self.stop:
                base1 = baseline_compute()
                for a, b in zip(base0, base1):
                    if a.shape != b.shape or not torch.equal(a, b):
                        self.violate("baseline-compute", "n/a", "end", "computation outside all blocks changed after the run")
                        break
            # close whatever is left (only after a violation stopped the run)
            for t in list(live):
                try:
                    tasks[t].close()
                except BaseException:
                    pass
        restore_pristine()
        case = tuple(self.events)
        return {
            "digest": self.log.digest(),
            "violations": self.violations,
            "trace": self.trace,
            "stats": self.stats,
            "case": json.dumps(case),
            "nontrivial": sorted(self.nontrivial),
        }


def _started(gen):
    import inspect

    return inspect.getgeneratorstate(gen) == "GEN_SUSPENDED"


def _fmt_args(args):
    return ", ".join(f"{k}={dec(v)!r}" for k, v in args.items())


_IMPORT_VIEW = None


def _init_import_view():
    global _IMPORT_VIEW
    restore_pristine()
    m = Model()
    _IMPORT_VIEW = model_view(m)


_init_import_view()


# ----------------------------------------------------------------------------------------------------
# generation


class Gen:
    def __init__(self, seed, tier):
        self.rng = random.Random(seed)
        self.uid = 0
        self.nvar = 0

    def unique(self):
        self.uid += 1
        return self.uid

    def value_for(self, cname, slot_attr=None):
        """A fresh value for a scalar / per-dtype setting; unique per event where the type allows."""
        rng = self.rng
        default = IMPORT_VALUES[slots_of(cname)[0]] if kind_of(cname) == "value" else None
        u = self.unique()
        if isinstance(default, torch.dtype):
            return rng.choice([torch.float, torch.double])
        if cname == "settings.cholesky_max_tries":
            return rng.choice([1, 2, 3, 4, 5, 6]) if rng.random() < 0.7 else 10 + u
        if cname == "settings.max_cg_iterations":
            return rng.randint(1, 12) if rng.random() < 0.6 else 1000 + u
        if cname == "settings.max_cholesky_size":
            return rng.choice([0, 3, 4, 5, 6, 800 + u])
        if kind_of(cname) == "dtype":
            if rng.random() < 0.12:
                return 0.0  # falsy but set (c17-s7)
            return round(rng.choice([1e-8, 1e-7, 1e-6, 1e-5, 1e-4, 1e-3]) * (1 + u / 1000.0), 15)
        if isinstance(default, bool):
            return rng.random() < 0.5
        if isinstance(default, int):
            return 0 if rng.random() < 0.08 else default + u
        if isinstance(default, float):
            return 0.0 if rng.random() < 0.08 else round(default * (1 + u / 1000.0), 15)
        return u

    def ctx_args(self, cname):
        rng = self.rng
        k = kind_of(cname)
        if k == "flag":
            r = rng.random()
            if r < 0.15:
                return {}
            return {"state": rng.random() < 0.5}
        if k == "value":
            return {"value": enc(self.value_for(cname))}
        if k == "dtype":
            args = {}
            which = [d for d in ("float", "double", "half") if rng.random() < 0.5] or [rng.choice(["float", "double", "half"])]
            for d in which:
                args[f"{d}_value"] = self.value_for(cname)
            return args
        if cname == "settings.fast_computations":
            return {a: rng.random() < 0.5 for a in ("covar_root_decomposition", "log_prob", "solves") if rng.random() < 0.8}
        if cname == "settings.linalg_dtypes":
            args = {}
            if rng.random() < 0.7:
                args["default"] = enc(rng.choice([torch.float, torch.double]))
            for a in ("symeig", "cholesky"):
                if rng.random() < 0.4:
                    args[a] = enc(rng.choice([torch.float, torch.double]))
            return args
        raise KeyError(cname)

    def restrict_dtype_args(self, cname, args, allowed_slots):
        if kind_of(cname) != "dtype":
            return args
        out = {}
        for d in ("float", "double", "half"):
            if f"{d}_value" in args and f"{cname}#{DTATTR[d]}" in allowed_slots:
                out[f"{d}_value"] = args[f"{d}_value"]
        return out

    def program(self, classes, allowed_slots, budget):
        """classes: class names this task may use. Returns a statement list of ~budget events."""
        rng = self.rng
        self.budget = budget
        self.vars = []  # (var, cname)
        self.classes = classes
        self.allowed = allowed_slots
        if hasattr(self, "_focus"):
            del self._focus
        return self.body(0, in_try=False)

    def pick_class(self):
        rng = self.rng
        # bias towards a small working set so that the same slot is nested / re-used often
        if not hasattr(self, "_focus") or rng.random() < 0.05:
            k = min(len(self.classes), rng.choice([1, 2, 2, 3, 4]))
            self._focus = rng.sample(self.classes, k)
        return rng.choice(self._focus)

    def new_args(self, cname):
        for _ in range(8):
            args = self.restrict_dtype_args(cname, self.ctx_args(cname), self.allowed)
            if kind_of(cname) != "dtype" or args:
                return args
        return None

    def body(self, depth, in_try):
        rng = self.rng
        out = []
        n = rng.randint(1, 4)
        for _ in range(n):
            if self.budget <= 0:
                break
            r = rng.random()
            self.budget -= 1
            if r < 0.16:
                cname = self.pick_class()
                args = self.new_args(cname)
                if args is None:
                    continue
                self.nvar += 1
                var = f"c{self.nvar}"
                self.vars.append((var, cname))
                out.append({"k": "construct", "var": var, "cls": cname, "args": args})
            elif r < 0.55 and depth < 5:
                if self.vars and rng.random() < 0.5:
                    var, cname = rng.choice(self.vars[-4:])
                    st = {"k": "with", "var": var}
                else:
                    cname = self.pick_class()
                    args = self.new_args(cname)
                    if args is None:
                        continue
                    st = {"k": "with", "cls": cname, "args": args}
                st["body"] = self.body(depth + 1, in_try)
                out.append(st)
            elif r < 0.63 and depth < 5:
                out.append({"k": "try", "body": self.body(depth + 1, True)})
            elif r < 0.71:
                if in_try or rng.random() < 0.2:
                    out.append({"k": "raise", "kind": "lib" if rng.random() < 0.25 else "sim"})
                    break
            elif r < 0.86:
                out.append({"k": "yield"})
            elif r < 0.93:
                out.append({"k": "compute", "what": rng.choice(sorted(COMPUTES))})
            else:
                out.append({"k": "read"})
        return out


def generate_scenario(seed, tier):
    g = Gen(seed, tier)
    rng = g.rng
    ntasks = rng.choice([1, 1, 2, 2, 3])
    # swarm: which class groups are in play this run
    groups = list(_GROUPS)
    rng.shuffle(groups)
    ngroups = rng.randint(1, min(len(groups), 6))
    groups = groups[:ngroups]
    # always keep compute-relevant classes likely
    if rng.random() < 0.5:
        for c in ("settings.cholesky_jitter", "settings.cholesky_max_tries", "settings.max_cholesky_size", "settings.max_cg_iterations"):
            grp = next(gr for gr in _GROUPS if c in gr)
            if grp not in groups and rng.random() < 0.5:
                groups.append(grp)
    # ownership: each group goes to one task; a per-dtype class may be split slot-wise between tasks
    owners = {t: {"classes": [], "slots": set()} for t in range(ntasks)}
    for grp in groups:
        if len(grp) == 1 and kind_of(grp[0]) == "dtype" and ntasks > 1 and rng.random() < 0.5:
            sl = slots_of(grp[0])
            assign = [rng.randrange(ntasks) for _ in sl]
            for s, t in zip(sl, assign):
                owners[t]["slots"].add(s)
                if grp[0] not in owners[t]["classes"]:
                    owners[t]["classes"].append(grp[0])
        else:
            t = rng.randrange(ntasks)
            for c in grp:
                owners[t]["classes"].append(c)
                owners[t]["slots"].update(slots_of(c))
    tasks = []
    total_budget = rng.randint(6, 40)
    for t in range(ntasks):
        if not owners[t]["classes"]:
            tasks.append({"program": [{"k": "yield"}]})
            continue
        prog = g.program(owners[t]["classes"], owners[t]["slots"], max(3, total_budget // ntasks))
        tasks.append({"program": prog})
    nsched = 80
    schedule = [rng.randrange(ntasks) for _ in range(nsched)]
    cancels = []
    if rng.random() < 0.3:
        for _ in range(rng.randint(1, 2)):
            cancels.append({"at": rng.randint(1, 12), "task": rng.randrange(ntasks), "mode": rng.choice(["throw", "close"])})
    return {"run_seed": seed, "tasks": tasks, "schedule": schedule, "cancels": cancels}


# ----------------------------------------------------------------------------------------------------
# engine interface


def warmup():
    restore_pristine()
    with warnings.catch_warnings(record=True):
        warnings.simplefilter("always")
        baseline_compute()
        m = Model()
        for fn in COMPUTES.values():
            fn(m)
    restore_pristine()


def generate_run(seed, tier):
    scen = generate_scenario(sub_seed(seed, "gen"), tier)
    scen["run_seed"] = seed
    return scen, replay(scen)


def replay(scen):
    return Exec(scen).run()


def scenario_len(scen):
    def cnt(body):
        return sum(1 + cnt(st.get("body", [])) for st in body)

    return sum(cnt(t["program"]) for t in scen["tasks"]) + len(scen.get("cancels", []))


def _paths(body, prefix=()):
    for i, st in enumerate(body):
        p = prefix + (i,)
        yield p
        if "body" in st:
            yield from _paths(st["body"], p)


def _edit(scen, ti, path, mode):
    new = json.loads(json.dumps(scen))
    body = new["tasks"][ti]["program"]
    for i in path[:-1]:
        body = body[i]["body"]
    st = body[path[-1]]
    if mode == "delete":
        del body[path[-1]]
    elif mode == "unwrap":
        if "body" not in st:
            return None
        body[path[-1]:path[-1] + 1] = st["body"]
    return new


def minimise(scen, sig):
    """Hierarchical delta debugging over the statement trees, then schedule / cancel simplification."""

    def still(s):
        r = replay(s)
        return bool(r["violations"]) and r["violations"][0]["sig"] == sig

    cur = json.loads(json.dumps(scen))
    # drop whole tasks' programs, cancels, schedule
    changed = True
    rounds = 0
    while changed and rounds < 30:
        changed = False
        rounds += 1
        for ti in range(len(cur["tasks"])):
            if cur["tasks"][ti]["program"]:
                cand = json.loads(json.dumps(cur))
                cand["tasks"][ti]["program"] = []
                if still(cand):
                    cur = cand
                    changed = True
        if cur.get("cancels"):
            for i in range(len(cur["cancels"])):
                cand = json.loads(json.dumps(cur))
                del cand["cancels"][i]
                if still(cand):
                    cur = cand
                    changed = True
                    break
        if cur.get("schedule"):
            cand = json.loads(json.dumps(cur))
            cand["schedule"] = []
            if still(cand):
                cur = cand
                changed = True
        for ti in range(len(cur["tasks"])):
            progress = True
            while progress:
                progress = False
                paths = sorted(_paths(cur["tasks"][ti]["program"]), key=lambda p: (len(p), p))
                for p in paths:
                    for mode in ("delete", "unwrap"):
                        cand = _edit(cur, ti, p, mode)
                        if cand is not None and still(cand):
                            cur = cand
                            progress = True
                            changed = True
                            break
                    if progress:
                        break
        # simplify context arguments: drop optional args
        for ti in range(len(cur["tasks"])):
            for p in list(_paths(cur["tasks"][ti]["program"])):
                body = cur["tasks"][ti]["program"]
                for i in p[:-1]:
                    body = body[i]["body"]
                st = body[p[-1]]
                if "args" in st and len(st["args"]) > 1:
                    for a in list(st["args"]):
                        cand = json.loads(json.dumps(cur))
                        b2 = cand["tasks"][ti]["program"]
                        for i in p[:-1]:
                            b2 = b2[i]["body"]
                        del b2[p[-1]]["args"][a]
                        try:
                            ok = still(cand)
                        except Exception:
                            ok = False
                        if ok:
                            cur = cand
                            changed = True
                            break
    # drop empty trailing tasks
    return cur, replay(cur)


def new_aggregate():
    return {"runs": 0, "stats": {}, "cases": {}, "nontrivial_cases": {}, "nontrivial_kinds": {}, "samples": [],
            "classes_used": {}, "selfchecked": 0}


def aggregate(agg, scen, res):
    agg["runs"] += 1
    for k, v in res["stats"].items():
        if k == "max_depth":
            agg["stats"][k] = max(agg["stats"].get(k, 0), v)
        else:
            agg["stats"][k] = agg["stats"].get(k, 0) + v
    import hashlib

    h = hashlib.blake2b(res["case"].encode(), digest_size=8).hexdigest()
    agg["cases"][h] = 1
    if res["nontrivial"]:
        agg["nontrivial_cases"][h] = 1
        for k in res["nontrivial"]:
            agg["nontrivial_kinds"][k] = agg["nontrivial_kinds"].get(k, 0) + 1
    if len(agg["samples"]) < 3 and res["nontrivial"] and len(res["trace"]) >= 6:
        agg["samples"].append({"run_seed": scen["run_seed"], "trace": res["trace"][:40]})

    def walk(body):
        for st in body:
            if "cls" in st:
                agg["classes_used"][st["cls"]] = agg["classes_used"].get(st["cls"], 0) + 1
            walk(st.get("body", []))

    for t in scen["tasks"]:
        walk(t["program"])


def finish_aggregate(agg):
    return agg


def merge_aggregate(total, agg):
    total["runs"] += agg["runs"]
    total["selfchecked"] = total.get("selfchecked", 0) + agg.get("selfchecked", 0)
    for k, v in agg["stats"].items():
        if k == "max_depth":
            total["stats"][k] = max(total["stats"].get(k, 0), v)
        else:
            total["stats"][k] = total["stats"].get(k, 0) + v
    total["cases"].update(agg["cases"])
    total["nontrivial_cases"].update(agg["nontrivial_cases"])
    for k, v in agg["nontrivial_kinds"].items():
        total["nontrivial_kinds"][k] = total["nontrivial_kinds"].get(k, 0) + v
    for k, v in agg["classes_used"].items():
        total["classes_used"][k] = total["classes_used"].get(k, 0) + v
    for s in agg["samples"]:
        if len(total["samples"]) < 3:
            total["samples"].append(s)


def evidence(total, tier):
    st = total["stats"]
    return {
        "distinct_nontrivial": len(total["nontrivial_cases"]),
        "rule": "case = the run's event-kind sequence (construct / enter / enter-prebuilt / exit / exit-exc / raise / catch / yield / "
                "compute) with setting classes abstracted to their base kind (flag / value / dtype / composite); non-trivial iff the "
                "run contains a prebuilt or re-used context object, a context nested inside itself, an exceptional or cancelled exit, "
                "a previously-unset (None) slot, or a non-LIFO cross-task exit; distinct = distinct sequences (blake2 of the sequence)",
        "samples": total["samples"],
        "distinct_cases_total": len(total["cases"]),
        "steps_executed": st.get("events", 0),
        "fault_kinds": {
            "exception_raised_in_block (exceptional exits observed)": {"fired": st.get("exc_exits", 0)},
            "library_exception (real NotPSDError)": {"fired": st.get("lib_exc", 0)},
            "F4_cancel_throw": {"fired": st.get("cancel_throw", 0)},
            "F4_cancel_close": {"fired": st.get("cancel_close", 0)},
        },
        "reach_probes": {k: st.get(k, 0) for k in ("prebuilt_enter", "reuse_enter", "self_nest", "unset_prev", "cross_task_nonlifo",
                                                    "computes", "computes_skipped", "yields", "max_depth")},
        "nontrivial_kind_counts": total["nontrivial_kinds"],
        "setting_classes_discovered": len(CLASSES),
        "setting_classes_exercised": len(total["classes_used"]),
        "slots": len(ALL_SLOTS),
        "unknown_composites_not_judged": UNKNOWN_COMPOSITES,
        "generate_vs_replay_digest_selfchecks": total.get("selfchecked", 0),
        "components": {
            "real": ["linear_operator.settings (all context classes, readers)", "linear_operator.beta_features",
                     "psd_safe_cholesky / linear_cg / _choose_root_method / solve / root_decomposition used as Compute probes"],
            "stub": ["task scheduler (seeded generator stepping)", "SimExc / SimCancel fault sources"],
        },
    }


def summary_lines(total):
    st = total["stats"]
    return [f"events={st.get('events', 0)} distinct_cases={len(total['cases'])} nontrivial_cases={len(total['nontrivial_cases'])}",
            f"reach: " + " ".join(f"{k}={st.get(k, 0)}" for k in ("exc_exits", "lib_exc", "cancel_throw", "cancel_close", "prebuilt_enter",
                                                                  "reuse_enter", "self_nest", "unset_prev", "cross_task_nonlifo", "computes"))]
