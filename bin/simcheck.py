import os
import sys

sys.path.insert(0, os.path.dirname(os.path.dirname(os.path.abspath(__file__))))

from sim import cli  # noqa: E402

if __name__ == "__main__":
    sys.exit(cli.main(sys.argv[1:]))
